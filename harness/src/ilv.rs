// ilv: exhaustive (preemption-bounded) interleaving of concurrently optimised replicas, plus the
// reduction-tree and thread-count checks of C09.
//
// Each replica is an OS thread running the real optimiser on its own clone of a common state.
// The clone is wrapped in a State whose score() first waits for a baton, so exactly one replica
// runs at a time and an execution is a word over replica ids. Yield points therefore sit between
// a proposal being written into the parameter cells and its acceptance or roll-back.

use std::sync::{Arc, Condvar, Mutex};

use serde::{Serialize, Serializer};
use serde_json::{json, Value};
use svg::Document;

use packing::traits::*;
use packing::{BuildOptimiser, StandardBasis};

use crate::cli;
use crate::common::*;
use crate::states::*;

struct Sched {
    turn: Option<usize>,
    parked: Vec<bool>,
    finished: Vec<bool>,
    abort: bool,
}

type Baton = Arc<(Mutex<Sched>, Condvar)>;

pub struct Gate<S: State> {
    inner: S,
    id: usize,
    baton: Baton,
}

impl<S: State> Gate<S> {
    fn yield_point(&self) {
        let (m, cv) = &*self.baton;
        let mut g = m.lock().unwrap();
        g.parked[self.id] = true;
        cv.notify_all();
        while g.turn != Some(self.id) && !g.abort {
            g = cv.wait(g).unwrap();
        }
        g.parked[self.id] = false;
        g.turn = None;
    }
}

impl<S: State> Clone for Gate<S> {
    fn clone(&self) -> Self {
        Gate { inner: self.inner.clone(), id: self.id, baton: self.baton.clone() }
    }
}
impl<S: State> std::fmt::Debug for Gate<S> {
    fn fmt(&self, f: &mut std::fmt::Formatter) -> std::fmt::Result {
        self.inner.fmt(f)
    }
}
impl<S: State> Serialize for Gate<S> {
    fn serialize<Z: Serializer>(&self, s: Z) -> Result<Z::Ok, Z::Error> {
        self.inner.serialize(s)
    }
}
impl<S: State> PartialEq for Gate<S> {
    fn eq(&self, o: &Self) -> bool {
        self.inner == o.inner
    }
}
impl<S: State> Eq for Gate<S> {}
impl<S: State> PartialOrd for Gate<S> {
    fn partial_cmp(&self, o: &Self) -> Option<std::cmp::Ordering> {
        self.inner.partial_cmp(&o.inner)
    }
}
impl<S: State> Ord for Gate<S> {
    fn cmp(&self, o: &Self) -> std::cmp::Ordering {
        self.inner.cmp(&o.inner)
    }
}
impl<S: State> ToSVG for Gate<S> {
    type Value = Document;
    fn as_svg(&self) -> Document {
        self.inner.as_svg()
    }
}
impl<S: State> State for Gate<S> {
    fn score(&self) -> Option<f64> {
        self.yield_point();
        self.inner.score()
    }
    fn generate_basis(&self) -> Vec<StandardBasis> {
        self.inner.generate_basis()
    }
    fn total_shapes(&self) -> usize {
        self.inner.total_shapes()
    }
    fn as_positions(&self) -> Result<String, anyhow::Error> {
        self.inner.as_positions()
    }
}

#[derive(Clone, Debug)]
pub struct Pipeline {
    /// (steps, inner_steps, kt_start) per stage
    pub stages: Vec<(u64, u64, f64)>,
    pub max_step: f64,
}

impl Pipeline {
    fn build(&self, stage: usize, seed: u64) -> packing::MCOptimiser {
        let (steps, inner, kt) = self.stages[stage];
        let mut b = BuildOptimiser::default();
        b.steps(steps).inner_steps(inner).kt_start(kt).kt_finish(0.01).max_step_size(self.max_step).seed(seed);
        b.build()
    }
    pub fn json(&self) -> Value {
        json!({"stages": self.stages.iter().map(|s| json!({"steps": s.0, "inner_steps": s.1, "kt_start": s.2})).collect::<Vec<_>>(), "max_step_size": self.max_step})
    }
}

fn run_pipeline<S: State>(p: &Pipeline, seed: u64, s: S) -> String {
    // the same three chained calls whatever the number of stages (the opaque return type of
    // optimise_state is re-wrapped through its serialised form only at the very end)
    match p.stages.len() {
        1 => serde_json::to_string(&p.build(0, seed).optimise_state(s)).unwrap(),
        2 => serde_json::to_string(&p.build(1, seed).optimise_state(p.build(0, seed).optimise_state(s))).unwrap(),
        _ => serde_json::to_string(&p.build(2, seed).optimise_state(p.build(1, seed).optimise_state(p.build(0, seed).optimise_state(s)))).unwrap(),
    }
}

fn solo(st: &AnyState, p: &Pipeline, seed: u64) -> String {
    std::panic::catch_unwind(std::panic::AssertUnwindSafe(|| match st {
        AnyState::Poly(s) => run_pipeline(p, seed, s.clone()),
        AnyState::Mol(s) => run_pipeline(p, seed, s.clone()),
        AnyState::Lj(s) => run_pipeline(p, seed, s.clone()),
    }))
    .unwrap_or_else(|_| "PANICKED (solo)".to_string())
}

pub struct Exec {
    pub word: Vec<usize>,
    /// enabled replicas at each decision point and whether the previous runner was enabled
    pub points: Vec<(Vec<usize>, Option<usize>)>,
    pub results: Vec<String>,
    pub original_changed_at: Option<usize>,
}

/// Run k replicas under the schedule `prefix` (then: keep running the current replica while it is
/// enabled, otherwise the lowest enabled id).
pub fn execute(original: &AnyState, p: &Pipeline, seeds: &[u64], prefix: &[usize]) -> Exec {
    let k = seeds.len();
    let baton: Baton = Arc::new((Mutex::new(Sched { turn: None, parked: vec![false; k], finished: vec![false; k], abort: false }), Condvar::new()));
    let results: Arc<Mutex<Vec<Option<String>>>> = Arc::new(Mutex::new(vec![None; k]));
    let before = original.to_string();
    let mut word = vec![];
    let mut points = vec![];
    let mut changed_at = None;
    std::thread::scope(|scope| {
        for id in 0..k {
            let baton = baton.clone();
            let results = results.clone();
            let seed = seeds[id];
            let pl = p.clone();
            // the replica's own clone of the common original, taken on the spawning thread as
            // the CLI does (state.clone() inside the parallel map happens on the worker; both are
            // clones of the same shared original)
            let original = &*original;
            scope.spawn(move || {
                let out = std::panic::catch_unwind(std::panic::AssertUnwindSafe(|| match original {
                    AnyState::Poly(s) => run_pipeline(&pl, seed, Gate { inner: s.clone(), id, baton: baton.clone() }),
                    AnyState::Mol(s) => run_pipeline(&pl, seed, Gate { inner: s.clone(), id, baton: baton.clone() }),
                    AnyState::Lj(s) => run_pipeline(&pl, seed, Gate { inner: s.clone(), id, baton: baton.clone() }),
                }))
                .unwrap_or_else(|p| {
                    let msg = if let Some(s) = p.downcast_ref::<&str>() { s.to_string() } else if let Some(s) = p.downcast_ref::<String>() { s.clone() } else { "panic".to_string() };
                    format!("PANICKED: {}", msg)
                });
                results.lock().unwrap()[id] = Some(out);
                let (m, cv) = &*baton;
                let mut g = m.lock().unwrap();
                g.finished[id] = true;
                cv.notify_all();
            });
        }
        let (m, cv) = &*baton;
        let mut current: Option<usize> = None;
        loop {
            // wait until every unfinished replica is parked at a yield point
            let mut g = m.lock().unwrap();
            while !(0..k).all(|i| g.finished[i] || g.parked[i]) || g.turn.is_some() {
                g = cv.wait(g).unwrap();
            }
            let enabled: Vec<usize> = (0..k).filter(|i| !g.finished[*i]).collect();
            if enabled.is_empty() {
                break;
            }
            // all replicas are parked: reading the original here cannot race
            if changed_at.is_none() && original.to_string() != before {
                changed_at = Some(word.len());
            }
            let cur_enabled = current.filter(|c| enabled.contains(c));
            let pos = word.len();
            let choice = if pos < prefix.len() {
                if !enabled.contains(&prefix[pos]) {
                    g.abort = true;
                    cv.notify_all();
                    machinery_error("interleaving replay diverged: scheduled replica is not enabled");
                }
                prefix[pos]
            } else {
                cur_enabled.unwrap_or(enabled[0])
            };
            points.push((enabled.clone(), cur_enabled));
            word.push(choice);
            current = Some(choice);
            g.turn = Some(choice);
            cv.notify_all();
        }
    });
    if changed_at.is_none() && original.to_string() != before {
        changed_at = Some(word.len());
    }
    let results = results.lock().unwrap().iter().map(|r| r.clone().unwrap_or_default()).collect();
    Exec { word, points, results, original_changed_at: changed_at }
}

fn preemptions(word: &[usize], points: &[(Vec<usize>, Option<usize>)], upto: usize) -> usize {
    let mut n = 0;
    for i in 0..upto {
        if let Some(c) = points[i].1 {
            if word[i] != c {
                n += 1;
            }
        }
    }
    n
}

pub struct IlvOut {
    pub words: u64,
    pub grants: u64,
    pub outcomes: std::collections::BTreeSet<String>,
    pub fails: Vec<(String, Value)>,
    pub capped: bool,
}

/// All interleavings with at most `bound` preemptions (None = all).
pub fn explore(original: &AnyState, p: &Pipeline, seeds: &[u64], bound: Option<usize>, label: &str, max_words: u64) -> IlvOut {
    let solos: Vec<String> = seeds.iter().map(|s| solo(original, p, *s)).collect();
    let mut out = IlvOut { words: 0, grants: 0, outcomes: Default::default(), fails: vec![], capped: false };
    let mut stack: Vec<Vec<usize>> = vec![vec![]];
    while let Some(prefix) = stack.pop() {
        if out.words >= max_words {
            out.capped = true;
            break;
        }
        let x = execute(original, p, seeds, &prefix);
        out.words += 1;
        out.grants += x.word.len() as u64;
        let case = json!({"engine": "ilv", "state": original.to_json(), "label": label, "pipeline": p.json(), "seeds": seeds, "word": x.word});
        for (i, r) in x.results.iter().enumerate() {
            if *r != solos[i] {
                if out.fails.len() < 3 {
                    // the same word must fail the same way twice
                    let again = execute(original, p, seeds, &x.word);
                    let det = again.results == x.results;
                    out.fails.push((format!("{}: replica {} (seed {}) differs from its solo run under schedule {:?}{}", label, i, seeds[i], x.word, if det { "" } else { " (and the same schedule gives different results when repeated)" }), case.clone()));
                }
            }
        }
        if let Some(at) = x.original_changed_at {
            if out.fails.len() < 3 {
                out.fails.push((format!("{}: the common original changed while its copies were optimised (after {} grants of schedule {:?})", label, at, x.word), case.clone()));
            }
        }
        out.outcomes.insert(x.results.join("|"));
        // branch: alternatives at every later decision point within the preemption bound
        for i in prefix.len()..x.word.len() {
            let (enabled, cur) = &x.points[i];
            let base = preemptions(&x.word, &x.points, i);
            for alt in enabled.iter() {
                if *alt == x.word[i] {
                    continue;
                }
                let cost = base + if cur.is_some() && Some(*alt) != *cur { 1 } else { 0 };
                if let Some(b) = bound {
                    if cost > b {
                        continue;
                    }
                }
                let mut np = x.word[..i].to_vec();
                np.push(*alt);
                stack.push(np);
            }
        }
    }
    out
}

// ------------------------------------------------------------------------------------------
// reduction trees

fn all_trees(lo: usize, hi: usize) -> Vec<Tree> {
    if hi - lo == 1 {
        return vec![Tree::Leaf(lo)];
    }
    let mut v = vec![];
    for mid in (lo + 1)..hi {
        for l in all_trees(lo, mid) {
            for r in all_trees(mid, hi) {
                v.push(Tree::Node(Box::new(l.clone()), Box::new(r)));
            }
        }
    }
    v
}

#[derive(Clone)]
enum Tree {
    Leaf(usize),
    Node(Box<Tree>, Box<Tree>),
}

fn fold<S: State>(t: &Tree, items: &[S]) -> S {
    match t {
        Tree::Leaf(i) => items[*i].clone(),
        Tree::Node(l, r) => std::cmp::max(fold(l, items), fold(r, items)),
    }
}

fn reduction_check<S: State>(items: Vec<S>, label: &str) -> (u64, Vec<String>) {
    let seq = items.iter().cloned().max().unwrap();
    let want = serde_json::to_string(&seq).unwrap();
    let want_score = seq.score();
    let trees = all_trees(0, items.len());
    let mut fails = vec![];
    for (ti, t) in trees.iter().enumerate() {
        let got = fold(t, &items);
        let gs = serde_json::to_string(&got).unwrap();
        if gs != want || got.score() != want_score {
            if fails.len() < 2 {
                fails.push(format!("{}: reduction tree {} of {} selects a different result than the sequential maximum", label, ti, trees.len()));
            }
        }
        // and it is a maximum
        if items.iter().any(|i| i.score() > got.score()) && fails.len() < 2 {
            fails.push(format!("{}: reduction tree {} does not select the highest score", label, ti));
        }
    }
    (trees.len() as u64, fails)
}

// ------------------------------------------------------------------------------------------
// C09

fn c09_states() -> Vec<(String, AnyState)> {
    vec![
        ("p2 square hard".to_string(), AnyState::from_group("p2", &ShapeSpec::Polygon(4))),
        ("p2mg trimer hard".to_string(), AnyState::from_group("p2mg", &ShapeSpec::Trimer(0.637556, 120., 1.))),
        ("p2 trimer LJ".to_string(), AnyState::from_group("p2", &ShapeSpec::LjTrimer(0.637556, 120., 1.))),
    ]
}

fn inproc_analyse(st: &AnyState, reps: u64, opt: &BuildOptimiser, threads: usize) -> Result<(String, String), String> {
    let out = cli::fresh_out();
    let pool = rayon::ThreadPoolBuilder::new().num_threads(threads).build().map_err(|e| e.to_string())?;
    let o2 = out.clone();
    let r = pool.install(|| match st {
        AnyState::Poly(s) => cli::repo_main::call_analyse_state(o2, reps, s.clone(), opt),
        AnyState::Mol(s) => cli::repo_main::call_analyse_state(o2, reps, s.clone(), opt),
        AnyState::Lj(s) => cli::repo_main::call_analyse_state(o2, reps, s.clone(), opt),
    });
    r.map_err(|e| e.to_string())?;
    let j = std::fs::read_to_string(out.with_extension("json")).map_err(|e| e.to_string())?;
    let s = std::fs::read_to_string(out.with_extension("svg")).map_err(|e| e.to_string())?;
    let _ = std::fs::remove_file(out.with_extension("json"));
    let _ = std::fs::remove_file(out.with_extension("svg"));
    Ok((j, s))
}

pub fn c09(tier: Tier) -> ! {
    let mut run = Run::new("C09", tier, "model_checking");
    let states = c09_states();
    let mut words = 0u64;
    let mut grants = 0u64;
    let mut outcomes = 0u64;
    let mut capped = false;
    // (1) interleavings
    let mut plans: Vec<(Pipeline, Vec<u64>, Option<usize>, &str)> = vec![
        (Pipeline { stages: vec![(3, 3, 0.1)], max_step: 0.2 }, vec![0, 1], None, "2 replicas x 1 stage of 3 steps, all interleavings"),
        (Pipeline { stages: vec![(3, 1, 0.1)], max_step: 0.2 }, vec![0, 0], None, "2 replicas sharing a seed, all interleavings"),
        (Pipeline { stages: vec![(2, 2, 0.), (2, 1, 0.1), (2, 2, 0.)], max_step: 0.2 }, vec![0, 1], Some(2), "2 replicas x 3 chained stages, <= 2 preemptions"),
        (Pipeline { stages: vec![(3, 3, 0.1)], max_step: 0.2 }, vec![0, 1, 2], Some(tier.pick(2, 3)), "3 replicas x 1 stage of 3 steps, preemption-bounded"),
    ];
    if tier == Tier::Thorough {
        plans.push((Pipeline { stages: vec![(1, 1, 0.1)], max_step: 0.2 }, vec![0, 1, 2], None, "3 replicas x 1 step, all interleavings"));
        plans.push((Pipeline { stages: vec![(2, 2, 0.), (2, 1, 0.1), (2, 2, 0.)], max_step: 0.2 }, vec![0, 1, 2], Some(2), "3 replicas x 3 chained stages, <= 2 preemptions"));
        plans.push((Pipeline { stages: vec![(4, 2, 0.1)], max_step: 0.2 }, vec![3, 4], None, "2 replicas x 4 steps, all interleavings"));
    }
    let mut jobs = vec![];
    for (label, st) in states.iter() {
        for (pl, seeds, bound, what) in plans.iter() {
            jobs.push((format!("{}: {}", label, what), st.clone(), pl.clone(), seeds.clone(), *bound));
        }
    }
    let cap = tier.pick(20_000u64, 400_000u64);
    let outs = par_map(&jobs, |_, (label, st, pl, seeds, bound)| explore(st, pl, seeds, *bound, label, cap));
    for (i, o) in outs.into_iter().enumerate() {
        words += o.words;
        grants += o.grants;
        outcomes += o.outcomes.len() as u64;
        capped |= o.capped;
        if o.outcomes.len() != 1 && o.fails.is_empty() {
            run.fail(None, &format!("{}: {} distinct outcomes over the interleavings", jobs[i].0, o.outcomes.len()), json!({"engine": "ilv", "label": jobs[i].0}));
        }
        for (w, c) in o.fails {
            run.fail(None, &w, c);
        }
        if i % 4 == 0 {
            run.sample(json!({"plan": jobs[i].0, "interleavings": o.words}));
        }
    }
    run.set("states", words);
    run.set("transitions", grants);
    run.set("traces_validated_against_impl", words);
    run.set("interleavings_executed", words);
    run.set("distinct_outcomes_summed_over_plans", outcomes);
    run.set("plans", jobs.len() as u64);
    // replicas with different seeds must actually differ, otherwise the comparison is vacuous
    {
        let (_, st) = &states[0];
        let pl = Pipeline { stages: vec![(3, 3, 0.1)], max_step: 0.2 };
        run.require(solo(st, &pl, 0) != solo(st, &pl, 1), "replicas with different seeds give identical results");
    }
    // (1b) repeated solo runs, for every seed the CLI hands out first, on fresh threads
    let mut repeats = 0u64;
    let mut repeat_states = c09_states();
    {
        // a state with three occupied sites under three different letters (public constructor)
        use packing::wallpaper::{get_wallpaper_group, Wallpaper, WyckoffSite};
        let wg = get_wallpaper_group(crate::oracle::wallpaper_enum("p2")).unwrap();
        let mut sites = vec![];
        for letter in ['d', 'a', 'k'].iter() {
            let mut w = WyckoffSite::new(&wg).unwrap();
            w.letter = *letter;
            sites.push(w);
        }
        let st = AnyState::Poly(packing::PackedState::initialise(packing::LineShape::polygon(4).unwrap(), Wallpaper::new(&wg), &sites));
        // spread the sites apart so that the start is valid
        let nb = st.basis_values().len();
        for (k, v) in [(nb - 3, -0.3), (nb - 2, 0.3), (nb - 6, 0.3), (nb - 5, -0.2), (nb - 9, 0.1), (nb - 8, 0.05)].iter() {
            st.set_basis_value(*k, *v);
        }
        if st.score().is_some() {
            repeat_states.push(("p2 square hard, three sites".to_string(), st));
        }
    }
    for (label, st) in repeat_states.iter() {
        let pl = Pipeline { stages: vec![(6, 3, 0.1)], max_step: 0.2 };
        for seed in [0u64, 1, 2, 3, 17, u64::MAX].iter() {
            let a = solo(st, &pl, *seed);
            let st2 = st.clone();
            let pl2 = pl.clone();
            let sd = *seed;
            let b = std::thread::spawn(move || solo(&st2, &pl2, sd)).join().unwrap_or_default();
            repeats += 1;
            if a != b {
                run.fail(None, &format!("{}: two runs with seed {} give different results", label, seed), json!({"engine": "repeat", "label": label, "seed": seed}));
            }
        }
    }
    run.set("repeated_solo_runs", repeats);
    // (1c) history independence: what a thread optimised before must not matter
    let mut histories = 0u64;
    {
        let pl = Pipeline { stages: vec![(200, 50, 0.2)], max_step: 0.05 };
        // the result and its score as seen by the thread that produced it
        fn run_scored(st: &AnyState, pl: &Pipeline, seed: u64) -> (String, Option<u64>) {
            let out = solo(st, pl, seed);
            let score = serde_json::from_str::<Value>(&out).ok().and_then(|d| AnyState::from_json(&d).ok()).and_then(|s| s.score()).map(|x| x.to_bits());
            (out, score)
        }
        let pairs: Vec<(AnyState, AnyState, &str)> = vec![
            (AnyState::from_group("p2", &ShapeSpec::Trimer(0.637556, 120., 1.)), AnyState::from_group("p2", &ShapeSpec::Trimer(0.7, 180., 1.5)), "hard trimer after a different hard trimer"),
            (AnyState::from_group("p2mg", &ShapeSpec::Polygon(4)), AnyState::from_group("p2mg", &ShapeSpec::Polygon(6)), "square after hexagon"),
            (AnyState::from_group("p2", &ShapeSpec::LjTrimer(0.637556, 120., 1.)), AnyState::from_group("p1", &ShapeSpec::LjTrimer(1., 180., 2.)), "LJ trimer after a different LJ trimer"),
            (AnyState::from_group("p1g1", &ShapeSpec::Circle), AnyState::from_group("p2gg", &ShapeSpec::Trimer(0.5, 60., 1.2)), "circle after a trimer"),
        ];
        // second pass with two-step inner loops: the step-size adaptation is live there
        let pl_short = Pipeline { stages: vec![(60, 2, 0.02)], max_step: 0.3 };
        let pairs2: Vec<(AnyState, AnyState, &str)> = pairs.iter().map(|(a, b, w)| (a.clone(), b.clone(), *w)).collect();
        for (a, b, what) in pairs2 {
            histories += 1;
            let (a1, p1) = (a.clone(), pl_short.clone());
            let fresh = std::thread::spawn(move || run_scored(&a1, &p1, 3)).join().unwrap_or_default();
            let (a2, b2, p2) = (a.clone(), b.clone(), pl_short.clone());
            let after = std::thread::spawn(move || {
                let _ = run_scored(&b2, &p2, 5);
                run_scored(&a2, &p2, 3)
            })
            .join()
            .unwrap_or_default();
            if fresh != after {
                run.fail(None, &format!("result depends on what the thread optimised before ({}, two-step inner loops)", what), json!({"engine": "history", "what": what, "inner_steps": 2}));
            }
        }
        for (a, b, what) in pairs {
            histories += 1;
            let (a1, pl1) = (a.clone(), pl.clone());
            let fresh = std::thread::spawn(move || run_scored(&a1, &pl1, 3)).join().unwrap_or_default();
            let (a2, b2, pl2) = (a.clone(), b.clone(), pl.clone());
            let after = std::thread::spawn(move || {
                let _ = run_scored(&b2, &pl2, 5);
                run_scored(&a2, &pl2, 3)
            })
            .join()
            .unwrap_or_default();
            if fresh != after {
                run.fail(None, &format!("result depends on what the thread optimised before ({})", what), json!({"engine": "history", "what": what}));
            }
        }
    }
    run.set("history_pairs", histories);
    {
    }
    // (2) reduction trees over real result states, with ties
    let mut trees = 0u64;
    for (label, st) in states.iter() {
        let pl = Pipeline { stages: vec![(20, 10, 0.05)], max_step: 0.05 };
        let seeds = [0u64, 1, 2, 1, 3, 0];
        let docs: Vec<Value> = seeds.iter().map(|s| serde_json::from_str(&solo(st, &pl, *s)).unwrap()).collect();
        let items: Vec<AnyState> = docs.iter().map(|d| AnyState::from_json(d).unwrap()).collect();
        let (n, fails) = match st {
            AnyState::Poly(_) => reduction_check(items.iter().map(|i| if let AnyState::Poly(s) = i { s.clone() } else { unreachable!() }).collect(), label),
            AnyState::Mol(_) => reduction_check(items.iter().map(|i| if let AnyState::Mol(s) = i { s.clone() } else { unreachable!() }).collect(), label),
            AnyState::Lj(_) => reduction_check(items.iter().map(|i| if let AnyState::Lj(s) = i { s.clone() } else { unreachable!() }).collect(), label),
        };
        trees += n;
        for f in fails {
            run.fail(None, &f, json!({"engine": "reduction", "label": label, "seeds": seeds}));
        }
    }
    // scores that differ by less than 1e-6 from their neighbours: the maximum must still be THE
    // maximum under every association (an ordering with a tolerance is not transitive)
    {
        let tpl = StateTemplate::new("p2", &ShapeSpec::Polygon(4).json());
        for order in 0..3 {
            let mut items: Vec<packing::PackedState<packing::LineShape>> = vec![];
            for k in 0..7usize {
                let j = match order {
                    0 => k,
                    1 => 6 - k,
                    _ => (k * 3) % 7,
                };
                let p = Params { length: 4.2 * (1. + 2.5e-7 * j as f64), ratio: 1., angle: std::f64::consts::PI / 2., x: -0.25, y: -0.25, phi: 0. };
                if let Ok(AnyState::Poly(s)) = AnyState::from_json(&tpl.with(&p)) {
                    items.push(s);
                }
            }
            if items.len() == 7 && items.iter().all(|i| i.score().is_some()) {
                let (n, fails) = reduction_check(items, "seven p2 squares whose scores differ by 1e-7 steps");
                trees += n;
                for f in fails {
                    run.fail(None, &f, json!({"engine": "reduction", "label": "chained scores", "order": order}));
                }
            }
        }
    }
    run.set("reduction_trees", trees);
    // (3) the real pipeline in rayon pools of 1..16 threads, and the real binary
    let mut pool_runs = 0u64;
    let pools: Vec<usize> = tier.pick(vec![1, 2, 3, 8, 16], (1..=16).collect());
    // in p1 a translation of the molecule leaves the score unchanged up to rounding, so the last
    // bits of the score decide acceptance: any schedule dependence of the arithmetic shows here
    let mut pool_states = c09_states();
    pool_states.push(("p1 trimer LJ".to_string(), AnyState::from_group("p1", &ShapeSpec::LjTrimer(0.637556, 120., 1.))));
    pool_states.push(("p1 circle LJ".to_string(), AnyState::from_group("p1", &ShapeSpec::LjCircle)));
    pool_states.push(("p1 square hard".to_string(), AnyState::from_group("p1", &ShapeSpec::Polygon(4))));
    for (label, st) in pool_states.iter() {
        for short in [false, true].iter() {
        let mut opt = BuildOptimiser::default();
        if *short {
            // two-step inner loops: the step-size adaptation acts after almost every loop
            opt.steps(tier.pick(40, 120)).inner_steps(2).kt_start(0.05).max_step_size(0.2);
        } else {
            opt.steps(tier.pick(40, 120)).inner_steps(20).kt_start(0.1).max_step_size(0.02);
        }
        let mut reference: Option<(String, String)> = None;
        for &t in pools.iter() {
            for rep in 0..2 {
                pool_runs += 1;
                match inproc_analyse(st, 9, &opt, t) {
                    Err(e) => run.fail(None, &format!("{}: pipeline failed in a pool of {} threads: {}", label, t, e), json!({"engine": "pool", "label": label, "threads": t})),
                    Ok(r) => match &reference {
                        None => reference = Some(r),
                        Some(w) => {
                            if *w != r {
                                run.fail(None, &format!("{}: output files differ between a pool of {} threads (repetition {}) and a pool of {} thread(s)", label, t, rep, pools[0]), json!({"engine": "pool", "label": label, "threads": t}));
                            }
                        }
                    },
                }
            }
        }
        }
        // the original handed to the pipeline is untouched
        let fresh = match c09_states().into_iter().find(|(l, _)| l == label) {
            Some(f) => f.1,
            None => continue,
        };
        if fresh.to_string() != st.to_string() {
            run.fail(None, &format!("{}: the state handed to the pipeline was modified", label), json!({"engine": "pool", "label": label}));
        }
    }
    run.set("in_process_pool_runs", pool_runs);
    let mut bin_runs = 0u64;
    let bin_threads: Vec<usize> = tier.pick(vec![1, 4, 16], vec![1, 2, 3, 4, 8, 16]);
    for args in [
        vec!["--replications", "12", "--steps", "60", "--inner-steps", "20", "p2", "polygon", "--sides", "4"],
        vec!["--replications", "10", "--steps", "40", "--inner-steps", "10", "--potential", "LJ", "p2mg", "trimer"],
        vec!["--replications", "7", "--steps", "40", "--inner-steps", "10", "--potential", "LJ", "p1", "trimer"],
        // many replicas per worker thread and a hot main stage
        vec!["--replications", "32", "--kt-start", "0.5", "--steps", "400", "p2", "circle"],
        // long enough for a tiling shape to come within a thousandth of a perfect packing
        vec!["--replications", "3", "--steps", "10000", "--max-step-size", "0.05", "p2", "polygon", "--sides", "4"],
    ]
    .iter()
    {
        let a: Vec<String> = args.iter().map(|s| s.to_string()).collect();
        let mut reference: Option<(Option<String>, Option<String>)> = None;
        for &t in bin_threads.iter() {
            for rep in 0..2 {
                bin_runs += 1;
                let r = cli::run_cli(&a, &[("RAYON_NUM_THREADS", format!("{}", t))]);
                if r.status != Some(0) {
                    run.fail(None, &format!("binary failed with RAYON_NUM_THREADS={}: {:?} {}", t, r.status, r.stderr.chars().take(300).collect::<String>()), json!({"engine": "cli", "args": a}));
                    continue;
                }
                let got = (r.json, r.svg);
                match &reference {
                    None => reference = Some(got),
                    Some(w) => {
                        if *w != got {
                            run.fail(None, &format!("output files differ under RAYON_NUM_THREADS={} (repetition {})", t, rep), json!({"engine": "cli", "args": a, "threads": t}));
                        }
                    }
                }
            }
        }
    }
    // (3b) the output files are a function of the arguments: also when the --outfile exists
    let shared_pairs = crate::io_props::shared_outfile_histories(&mut run);
    run.set("ordered_command_pairs_sharing_an_outfile", shared_pairs);
    cli::cleanup();
    run.set("binary_runs", bin_runs);
    // (3c) a copy is the state: optimised states (cell ratio and lengths no longer round numbers)
    // cloned and cloned again serialise to the same bytes as the original, and the copy
    // optimises exactly like the original
    let mut clones = 0u64;
    let mut clone_pool: Vec<(String, AnyState)> = c09_states();
    clone_pool.push(("p1 circle hard".to_string(), AnyState::from_group("p1", &ShapeSpec::Circle)));
    clone_pool.push(("p2gg trimer hard".to_string(), AnyState::from_group("p2gg", &ShapeSpec::Trimer(0.637556, 120., 1.))));
    clone_pool.push(("p1m1 circle LJ".to_string(), AnyState::from_group("p1m1", &ShapeSpec::LjCircle)));
    'outer: for (label, init) in clone_pool.iter() {
        for seed in 0..tier.pick(12u64, 40u64) {
            let st = match crate::rsx::dense_start(init, 120, seed) {
                Some(s) => s,
                None => continue,
            };
            clones += 1;
            let a = serde_json::to_string(&st.to_json()).unwrap_or_default();
            let c1 = st.clone();
            let c2 = c1.clone();
            let b = serde_json::to_string(&c2.to_json()).unwrap_or_default();
            if a != b {
                run.fail(None, &format!("{} (optimised with seed {}): a copy of a copy of the state does not serialise to the same bytes as the state", label, seed), json!({"engine": "clone", "state": st.to_json(), "copy": c2.to_json()}));
                break 'outer;
            }
            let (r1, r2) = (crate::rsx::dense_start(&st, 40, 5), crate::rsx::dense_start(&c2, 40, 5));
            let j = |x: &Option<AnyState>| x.as_ref().map(|s| serde_json::to_string(&s.to_json()).unwrap_or_default());
            if j(&r1) != j(&r2) {
                run.fail(None, &format!("{} (optimised with seed {}): optimising a copy of the state gives another result than optimising the state (same settings and seed)", label, seed), json!({"engine": "clone", "state": st.to_json()}));
                break 'outer;
            }
        }
    }
    // (and a copy of the very object an optimisation handed back - not of a re-read document -
    // optimises like that object)
    {
        fn chain<S: State>(s: &S, seed: u64) -> (String, String) {
            let mut b1 = BuildOptimiser::default();
            b1.steps(150).inner_steps(50).kt_start(0.).kt_ratio(Some(0.)).max_step_size(0.05).seed(seed);
            let mut b2 = BuildOptimiser::default();
            b2.steps(60).inner_steps(20).kt_start(0.).kt_ratio(Some(0.)).max_step_size(0.02).seed(seed + 7);
            let a = b1.build().optimise_state(s.clone());
            let c = a.clone();
            let ra = serde_json::to_string(&b2.build().optimise_state(a)).unwrap_or_default();
            let rc = serde_json::to_string(&b2.build().optimise_state(c)).unwrap_or_default();
            (ra, rc)
        }
        for (label, init) in clone_pool.iter() {
            for seed in 0..tier.pick(6u64, 20u64) {
                clones += 1;
                let (ra, rc) = match std::panic::catch_unwind(std::panic::AssertUnwindSafe(|| match init {
                    AnyState::Poly(x) => chain(x, seed),
                    AnyState::Mol(x) => chain(x, seed),
                    AnyState::Lj(x) => chain(x, seed),
                })) {
                    Ok(v) => v,
                    Err(_) => {
                        run.fail(None, &format!("{} (seed {}): optimising an optimised state or its copy panicked", label, seed), json!({"engine": "clone", "what": label, "seed": seed}));
                        break;
                    }
                };
                if ra != rc {
                    run.fail(None, &format!("{} (seed {}): a copy of an optimised state optimises to another result than the optimised state itself (same settings and seed)", label, seed), json!({"engine": "clone", "what": label, "seed": seed}));
                    break;
                }
            }
        }
    }
    run.set("optimised_states_cloned_and_compared", clones);
    // (3d) one built optimiser used again: its second run is the run of a fresh optimiser with
    // the same settings (short loops on a jammed state, so the step adaptation has work to do)
    let mut reuse = 0u64;
    {
        fn twice<S: State>(first: &S, second: &S, b: &BuildOptimiser) -> (String, String) {
            let opt = b.build();
            let _ = opt.optimise_state(first.clone());
            let used = serde_json::to_string(&opt.optimise_state(second.clone())).unwrap_or_default();
            let fresh = serde_json::to_string(&b.build().optimise_state(second.clone())).unwrap_or_default();
            (used, fresh)
        }
        for (label, init) in clone_pool.iter() {
            for seed in 0..tier.pick(3u64, 10u64) {
                let (a, bst) = match (crate::rsx::dense_start(init, 400, seed), crate::rsx::dense_start(init, 150, seed + 100)) {
                    (Some(x), Some(y)) => (x, y),
                    _ => continue,
                };
                let mut b = BuildOptimiser::default();
                b.steps(600).inner_steps(5).kt_start(0.).kt_ratio(Some(0.)).max_step_size(0.05).seed(seed);
                reuse += 1;
                let (used, fresh) = match std::panic::catch_unwind(std::panic::AssertUnwindSafe(|| match (&a, &bst) {
                    (AnyState::Poly(x), AnyState::Poly(y)) => Some(twice(x, y, &b)),
                    (AnyState::Mol(x), AnyState::Mol(y)) => Some(twice(x, y, &b)),
                    (AnyState::Lj(x), AnyState::Lj(y)) => Some(twice(x, y, &b)),
                    _ => None,
                })) {
                    Ok(Some(v)) => v,
                    Ok(None) => continue,
                    Err(_) => {
                        run.fail(None, &format!("{} (seed {}): a run of a built optimiser panicked", label, seed), json!({"engine": "reuse", "what": label, "seed": seed}));
                        break;
                    }
                };
                if used != fresh {
                    run.fail(None, &format!("{} (seed {}): the second run of a built optimiser differs from the run of a fresh optimiser with the same settings: the result depends on what the object optimised before", label, seed), json!({"engine": "reuse", "what": label, "seed": seed}));
                    break;
                }
            }
        }
    }
    run.set("optimiser_objects_used_twice", reuse);
    // (4) thorough tier: the same bodies free-running under Miri's data-race detector (run by
    // the driver script, result handed over in the environment)
    if tier == Tier::Thorough {
        let miri = std::env::var("PVX_MIRI").unwrap_or_else(|_| "notrun".into());
        let selftest = std::env::var("PVX_MIRI_SELFTEST").unwrap_or_else(|_| "notrun".into());
        run.set("miri_data_race_pass", miri.clone());
        run.set("miri_detector_self_test", selftest.clone());
        if miri == "race" {
            run.fail(None, "Miri reports a data race between threads that optimise their own clones of one state (or read the original meanwhile): the replicas share unsynchronised memory", json!({"engine": "miri", "how": "cd /verif/harness-miri && MIRIFLAGS='-Zmiri-disable-isolation -Zmiri-disable-validation -Zmiri-ignore-leaks' cargo +nightly miri run --offline"}));
        }
        if selftest == "missed" {
            run.assume("Miri did NOT report the deliberately racy self-test in this run: its silence on the real bodies carries no weight");
        }
    }
    run.capped = capped;
    run.set("exhaustive", !capped);
    run.set("explanation", "states = interleaving words executed, transitions = baton grants. For 3 start states (hard polygon, hard trimer, LJ trimer) and 4 (quick) / 7 (thorough) plans, k = 2 or 3 replicas run the real optimiser on clones of one common state; a cooperative scheduler parks every replica at every score() call and all schedules with at most the stated number of preemptions (or all schedules) are executed by prefix replay. Oracle: each replica's JSON equals its solo run bit for bit, the common original never changes, every plan has exactly one outcome. Then every order-preserving binary reduction tree over 6 real result states with ties selects the sequential maximum, and the real analyse_state pipeline (in-process, rayon pools of 1..16 threads, twice each) and the real binary (RAYON_NUM_THREADS, twice each) produce byte-identical .json and .svg.");
    run.assume("rayon's own scheduler is not driven; the argument is compositional: replicas share nothing at score()-granularity interleaving (finer than any split between whole replicas), the reduction is order-insensitive over all trees, and 1..16-thread runs bind both to the real pool");
    run.assume("data races invisible to a cooperative scheduler are outside the interleaving sweep (no synchronisation primitive exists in the crate for loom/shuttle to intercept); the thorough tier adds a free-running pass under Miri's race detector as corroborating evidence (not part of the deciding enumeration)");
    run.require(words > 100, "too few interleavings");
    run.finish()
}

pub fn replay(case: &Value) -> ! {
    let st = AnyState::from_json(&case["state"]).unwrap_or_else(|e| machinery_error(&e));
    let stages: Vec<(u64, u64, f64)> = case["pipeline"]["stages"].as_array().unwrap().iter().map(|s| (s["steps"].as_u64().unwrap(), s["inner_steps"].as_u64().unwrap(), s["kt_start"].as_f64().unwrap())).collect();
    let pl = Pipeline { stages, max_step: case["pipeline"]["max_step_size"].as_f64().unwrap() };
    let seeds: Vec<u64> = case["seeds"].as_array().unwrap().iter().map(|s| s.as_u64().unwrap()).collect();
    let word: Vec<usize> = case["word"].as_array().unwrap().iter().map(|s| s.as_u64().unwrap() as usize).collect();
    let x = execute(&st, &pl, &seeds, &word);
    for (i, r) in x.results.iter().enumerate() {
        let s = solo(&st, &pl, seeds[i]);
        println!("replica {} seed {}: {} its solo run", i, seeds[i], if *r == s { "equals" } else { "DIFFERS from" });
    }
    println!("original changed: {:?}", x.original_changed_at);
    std::process::exit(0)
}
