// The command line tool: the real binary built from /repo (hooks off) and the real, private
// `analyse_state` pipeline called in-process (the source of main.rs is included below).

use std::path::{Path, PathBuf};
use std::process::Command;
use std::sync::atomic::{AtomicUsize, Ordering};

use serde_json::{json, Value};

use crate::common::*;

#[allow(dead_code, unused_imports, clippy::all)]
pub mod repo_main {
    include!("/repo/src/main.rs");

    /// The private pipeline of the binary, callable from the harness.
    pub fn call_analyse_state(
        outfile: std::path::PathBuf,
        start_configs: u64,
        state: impl State,
        optimiser: &BuildOptimiser,
    ) -> Result<(), Error> {
        analyse_state(outfile, start_configs, state, optimiser)
    }
}

static COUNTER: AtomicUsize = AtomicUsize::new(0);

pub fn scratch_dir() -> PathBuf {
    let d = PathBuf::from(format!("/verif/harness/target/tmp-cli/{}", std::process::id()));
    std::fs::create_dir_all(&d).unwrap_or_else(|e| machinery_error(&format!("scratch dir: {}", e)));
    d
}

pub fn fresh_out() -> PathBuf {
    let n = COUNTER.fetch_add(1, Ordering::Relaxed);
    scratch_dir().join(format!("out{}", n))
}

pub fn cleanup() {
    let _ = std::fs::remove_dir_all(scratch_dir());
}

pub struct CliResult {
    pub status: Option<i32>,
    pub signal: bool,
    pub stdout: String,
    pub stderr: String,
    pub json: Option<String>,
    pub svg: Option<String>,
    pub outfile: PathBuf,
}

pub fn repo_bin() -> String {
    match std::env::var("PVX_REPO_BIN") {
        Ok(p) if Path::new(&p).exists() => p,
        _ => machinery_error("PVX_REPO_BIN is not set or missing (run through ./check)"),
    }
}

/// Run the real binary. `args` are the arguments after `--outfile <generated>`.
pub fn run_cli(args: &[String], envs: &[(&str, String)]) -> CliResult {
    run_cli_at(fresh_out(), args, envs, true)
}

/// The same with a given --outfile; `remove` = delete the written files after reading them
/// (otherwise they stay for a following run to find).
pub fn run_cli_at(out: PathBuf, args: &[String], envs: &[(&str, String)], remove: bool) -> CliResult {
    let mut cmd = Command::new(repo_bin());
    cmd.arg("--outfile").arg(&out);
    for a in args {
        cmd.arg(a);
    }
    cmd.env_remove("RUST_LOG");
    cmd.env("RUST_BACKTRACE", "0");
    for (k, v) in envs {
        cmd.env(k, v);
    }
    let o = cmd.output().unwrap_or_else(|e| machinery_error(&format!("cannot run the binary: {}", e)));
    let json = std::fs::read_to_string(out.with_extension("json")).ok();
    let svg = std::fs::read_to_string(out.with_extension("svg")).ok();
    if remove {
        let _ = std::fs::remove_file(out.with_extension("json"));
        let _ = std::fs::remove_file(out.with_extension("svg"));
    }
    CliResult {
        status: o.status.code(),
        signal: o.status.code().is_none(),
        stdout: String::from_utf8_lossy(&o.stdout).to_string(),
        stderr: String::from_utf8_lossy(&o.stderr).to_string(),
        json,
        svg,
        outfile: out,
    }
}

/// The logged final score of a run (the binary logs at info level by default).
pub fn logged_score(stderr: &str) -> Option<f64> {
    for line in stderr.lines() {
        if let Some(p) = line.find("Final score: ") {
            let rest = line[p + "Final score: ".len()..].trim();
            return rest.parse::<f64>().ok();
        }
    }
    None
}

#[derive(Clone, Debug)]
pub struct CliArgs {
    pub group: String,
    pub shape: Vec<String>,
    pub potential: Option<String>,
    pub replications: u64,
    pub opt: Vec<String>,
}

impl CliArgs {
    pub fn to_vec(&self) -> Vec<String> {
        let mut v: Vec<String> = vec![];
        if let Some(p) = &self.potential {
            v.push("--potential".into());
            v.push(p.clone());
        }
        v.push("--replications".into());
        v.push(format!("{}", self.replications));
        v.extend(self.opt.iter().cloned());
        v.push(self.group.clone());
        v.extend(self.shape.iter().cloned());
        v
    }
    pub fn json(&self) -> Value {
        json!({"engine": "cli", "args": self.to_vec()})
    }
}

// ------------------------------------------------------------------------------------------
// C20, CLI part

pub struct CliC20 {
    pub invocations: u64,
    pub ok: u64,
    pub errors: u64,
}

pub fn c20_cli(run: &mut Run, tier: Tier) -> CliC20 {
    let groups = ["p1", "p2", "p1m1", "p1g1", "p2mm", "p2mg", "p2gg"];
    let shapes: Vec<(Vec<&str>, bool)> = vec![
        (vec!["polygon", "--sides", "3"], false),
        (vec!["polygon", "--sides", "4"], false),
        (vec!["polygon", "--sides", "2"], false),
        (vec!["circle"], true),
        (vec!["trimer"], true),
        (vec!["trimer", "-r", "0.7", "-a", "180", "-d", "1.5"], true),
    ];
    let counts: [u64; 4] = [0, 1, 7, 10];
    let mut cases: Vec<CliArgs> = vec![];
    let mut k = 0usize;
    for (gi, g) in groups.iter().enumerate() {
        for (si, (shape, lj_ok)) in shapes.iter().enumerate() {
            for pot in ["Hard", "LJ"].iter() {
                for &steps in counts.iter() {
                    for &inner in counts.iter() {
                        for &reps in [0u64, 1, 2].iter() {
                            for &kts in ["0", "0.1"].iter() {
                                for &fin in [None, Some("0.001")].iter() {
                                    k += 1;
                                    // covering selection: every pair of factor values occurs; the
                                    // zero-valued corners are always kept
                                    let zero_corner = (steps == 0 || inner == 0 || reps == 0) && (gi + si) % 3 == 0;
                                    let keep = match tier {
                                        Tier::Quick => (k % 97 == 0) || (zero_corner && k % 11 == 0),
                                        Tier::Thorough => (k % 13 == 0) || zero_corner,
                                    };
                                    if !keep {
                                        continue;
                                    }
                                    let _ = lj_ok;
                                    let mut opt = vec![format!("--steps={}", steps), format!("--inner-steps={}", inner), format!("--kt-start={}", kts)];
                                    if let Some(f) = fin {
                                        opt.push(format!("--kt-finish={}", f));
                                    }
                                    // every other kept case also with debug and with trace logging
                                    if k % 2 == 0 {
                                        for flag in ["-v", "-vv"].iter() {
                                            let mut o2 = opt.clone();
                                            o2.push(flag.to_string());
                                            cases.push(CliArgs { group: g.to_string(), shape: shape.iter().map(|s| s.to_string()).collect(), potential: Some(pot.to_string()), replications: reps, opt: o2 });
                                        }
                                    }
                                    cases.push(CliArgs {
                                        group: g.to_string(),
                                        shape: shape.iter().map(|s| s.to_string()).collect(),
                                        potential: Some(pot.to_string()),
                                        replications: reps,
                                        opt,
                                    });
                                }
                            }
                        }
                    }
                }
            }
        }
    }
    // argument errors must be reported, not crash
    for bad in [vec!["p3", "circle"], vec!["p2"], vec!["p2", "hexagon"], vec!["p2", "polygon", "--sides", "-1"], vec!["p2", "polygon", "--sides", "0"], vec!["p2", "circle", "--steps", "abc"]].iter() {
        cases.push(CliArgs { group: bad[0].to_string(), shape: bad[1..].iter().map(|s| s.to_string()).collect(), potential: None, replications: 1, opt: vec!["--steps=5".into()] });
    }
    // settings at zero and beyond the usual: reported or carried out, never a crash
    for extra in [vec!["--max-step-size=0"], vec!["--max-step-size=3"], vec!["--kt-ratio=0"], vec!["--kt-ratio=1"], vec!["--kt-ratio=2.5"], vec!["--convergence=0"], vec!["--convergence=-1"], vec!["--convergence=1e300"], vec!["--kt-start=inf"], vec!["--kt-finish=0", "--kt-start=0"]].iter() {
        for (g, shape, pot) in [("p2", vec!["circle"], "Hard"), ("p2mg", vec!["trimer"], "LJ")].iter() {
            let mut opt: Vec<String> = vec!["--steps=24".into(), "--inner-steps=4".into()];
            opt.extend(extra.iter().map(|s| s.to_string()));
            cases.push(CliArgs { group: g.to_string(), shape: shape.iter().map(|s| s.to_string()).collect(), potential: Some(pot.to_string()), replications: 2, opt });
        }
    }
    let n_grid = cases.len();
    // output locations that cannot be written, or have no parent: an error message, not a crash
    let odd_outfiles: Vec<String> = vec!["".into(), "/".into(), "/nonexistent-directory/x".into(), scratch_dir().to_string_lossy().to_string(), ".".into(), "..".into()];
    let results = par_map(&cases, |_, c| {
        let r = run_cli(&c.to_vec(), &[]);
        let mut fails: Vec<String> = vec![];
        let panicked = r.stderr.contains("panicked") || r.status == Some(101) || r.signal;
        if panicked {
            let line = r.stderr.lines().find(|l| l.contains("panicked")).unwrap_or("").to_string();
            let next = r.stderr.lines().skip_while(|l| !l.contains("panicked")).nth(1).unwrap_or("").to_string();
            fails.push(format!("the binary panicked (status {:?}): {} {}", r.status, line, next));
        } else if r.status == Some(0) {
            match (&r.json, &r.svg) {
                (Some(j), Some(s)) => {
                    if serde_json::from_str::<Value>(j).is_err() {
                        fails.push("exit status 0 but the .json file does not parse".to_string());
                    }
                    if !s.contains("<svg") {
                        fails.push("exit status 0 but the .svg file is not an SVG document".to_string());
                    }
                }
                _ => fails.push("exit status 0 but an output file is missing".to_string()),
            }
        } else if !(r.stderr.contains("Error") || r.stderr.contains("error") || r.stderr.contains("USAGE")) {
            fails.push(format!("exit status {:?} without an error message: {:?}", r.status, r.stderr.chars().take(200).collect::<String>()));
        }
        (r.status == Some(0), fails)
    });
    let _ = n_grid;
    for of in odd_outfiles.iter() {
        let mut cmd = Command::new(repo_bin());
        cmd.arg("--outfile").arg(of).args(&["--steps=8", "--inner-steps=4", "--replications=1", "p2", "circle"]);
        cmd.env_remove("RUST_LOG").env("RUST_BACKTRACE", "0").current_dir(scratch_dir());
        let o = cmd.output().unwrap_or_else(|e| machinery_error(&format!("cannot run the binary: {}", e)));
        let stderr = String::from_utf8_lossy(&o.stderr).to_string();
        if stderr.contains("panicked") || o.status.code() == Some(101) || o.status.code().is_none() {
            let line = stderr.lines().find(|l| l.contains("panicked")).unwrap_or("").to_string();
            run.fail(None, &format!("--outfile {:?}: the binary panicked (status {:?}): {}", of, o.status.code(), line), json!({"engine": "cli", "args": ["--outfile", of, "--steps=8", "--inner-steps=4", "--replications=1", "p2", "circle"]}));
        } else if o.status.code() != Some(0) && !(stderr.contains("Error") || stderr.contains("error")) {
            run.fail(None, &format!("--outfile {:?}: exit status {:?} without an error message", of, o.status.code()), json!({"engine": "cli", "args": ["--outfile", of]}));
        }
    }
    let mut out = CliC20 { invocations: (cases.len() + odd_outfiles.len()) as u64, ok: 0, errors: 0 };
    for (i, (ok, fails)) in results.into_iter().enumerate() {
        if ok {
            out.ok += 1;
        } else {
            out.errors += 1;
        }
        for f in fails {
            let key = cli_known_key(&cases[i], &f);
            run.fail(key, &f, cases[i].json());
        }
        if i % (cases.len() / 5 + 1) == 0 {
            run.sample(json!({"cli": cases[i].to_vec(), "exit_ok": ok}));
        }
    }
    cleanup();
    out
}

/// Known-finding predicates for CLI failures (decided from the arguments, not from the property).
pub fn cli_known_key(_c: &CliArgs, _what: &str) -> Option<&'static str> {
    None
}

pub fn replay_cli(case: &Value) -> ! {
    let args: Vec<String> = case["args"].as_array().unwrap().iter().map(|a| a.as_str().unwrap().to_string()).collect();
    let r = run_cli(&args, &[]);
    println!("packing --outfile <tmp> {}", args.join(" "));
    println!("status: {:?}", r.status);
    println!("stderr: {}", r.stderr);
    println!("json written: {} svg written: {}", r.json.is_some(), r.svg.is_some());
    cleanup();
    std::process::exit(0)
}
