// rsx: breadth-first search over real crystal states. A transition is one complete call of the
// real optimiser (a "stage" of 1 or 2 steps) on a deep copy of the state, with the random draws
// scripted through the verif hook. States are deduplicated on the bit patterns of their six
// parameters. Every score() call (accepted or merely proposed) is observed through a wrapper.

use std::collections::HashSet;
use std::f64::consts::PI;
use std::panic::{self, AssertUnwindSafe};
use std::sync::{Arc, Mutex};

use serde::{Serialize, Serializer};
use serde_json::{json, Value};
use svg::Document;

use packing::traits::*;
use packing::verif_hooks::{self, Draw};
use packing::StandardBasis;

use crate::common::*;
use crate::geo2::{c01_judge, c04_judge};
use crate::mcx::{index_word, threshold_word, unit_word, Cfg};
use crate::oracle::*;
use crate::states::*;

/// Delegating State that records what every score() call saw.
pub struct Watch<S: State> {
    pub inner: S,
    pub log: Arc<Mutex<Vec<(Value, Option<f64>)>>>,
}

impl<S: State> Clone for Watch<S> {
    fn clone(&self) -> Self {
        Watch { inner: self.inner.clone(), log: self.log.clone() }
    }
}
impl<S: State> std::fmt::Debug for Watch<S> {
    fn fmt(&self, f: &mut std::fmt::Formatter) -> std::fmt::Result {
        self.inner.fmt(f)
    }
}
impl<S: State> Serialize for Watch<S> {
    fn serialize<Z: Serializer>(&self, s: Z) -> Result<Z::Ok, Z::Error> {
        self.inner.serialize(s)
    }
}
impl<S: State> PartialEq for Watch<S> {
    fn eq(&self, o: &Self) -> bool {
        self.inner == o.inner
    }
}
impl<S: State> Eq for Watch<S> {}
impl<S: State> PartialOrd for Watch<S> {
    fn partial_cmp(&self, o: &Self) -> Option<std::cmp::Ordering> {
        self.inner.partial_cmp(&o.inner)
    }
}
impl<S: State> Ord for Watch<S> {
    fn cmp(&self, o: &Self) -> std::cmp::Ordering {
        self.inner.cmp(&o.inner)
    }
}
impl<S: State> ToSVG for Watch<S> {
    type Value = Document;
    fn as_svg(&self) -> Document {
        self.inner.as_svg()
    }
}
impl<S: State> State for Watch<S> {
    fn score(&self) -> Option<f64> {
        // (the state as it was handed over for scoring: a score() that writes to the state does
        // not get to hide what was proposed)
        let doc = serde_json::to_value(&self.inner).unwrap_or(Value::Null);
        let s = self.inner.score();
        self.log.lock().unwrap().push((doc, s));
        s
    }
    fn generate_basis(&self) -> Vec<StandardBasis> {
        self.inner.generate_basis()
    }
    fn total_shapes(&self) -> usize {
        self.inner.total_shapes()
    }
    fn as_positions(&self) -> Result<String, anyhow::Error> {
        self.inner.as_positions()
    }
}

#[derive(Clone, Debug)]
pub struct StageStep {
    pub index: usize,
    pub q: f64,
}

#[derive(Clone, Debug)]
pub struct Action {
    pub steps: Vec<StageStep>,
    pub max_step: f64,
    /// inner_steps of the stage (None: one loop of all steps)
    pub inner: Option<usize>,
}

impl Action {
    pub fn json(&self) -> Value {
        json!({"max_step_size": self.max_step, "inner_steps": self.inner, "steps": self.steps.iter().map(|s| json!({"index": s.index, "q": s.q})).collect::<Vec<_>>()})
    }
    pub fn from_json(v: &Value) -> Action {
        Action {
            max_step: v["max_step_size"].as_f64().unwrap(),
            inner: v["inner_steps"].as_u64().map(|x| x as usize),
            steps: v["steps"].as_array().unwrap().iter().map(|s| StageStep { index: s["index"].as_u64().unwrap() as usize, q: s["q"].as_f64().unwrap() }).collect(),
        }
    }
}

#[derive(Clone, Copy, Debug, PartialEq)]
pub enum Mode {
    /// accept every valid proposal (kT = 1e300, threshold 0)
    AcceptValid,
    /// kt_start = 0
    HillClimb,
    /// a negative temperature (kt_start = -1): every valid proposal is accepted, a proposal
    /// without a score still must not be
    NegativeT,
}

pub struct StageResult {
    /// returned state as JSON, or the panic message
    pub returned: Result<Value, String>,
    pub returned_score: Option<f64>,
    /// every score() call: (state document, answer)
    pub calls: Vec<(Value, Option<f64>)>,
}

/// One real optimisation stage on a deep copy of `st` under a scripted generator.
pub fn run_stage(st: &AnyState, act: &Action, mode: Mode) -> StageResult {
    let nbasis = st.basis_values().len();
    let words: Vec<(u64, u64)> = act.steps.iter().map(|s| (index_word(s.index.min(nbasis - 1), nbasis), unit_word(s.q))).collect();
    let mut step = 0usize;
    verif_hooks::install(Some(Box::new(move |draw, real| match draw {
        Draw::Index => {
            step += 1;
            words.get(step - 1).map(|w| w.0).unwrap_or(0)
        }
        // (a draw beyond the script - a step the stage was not asked for - is an extreme move)
        Draw::Delta => words.get(step.max(1) - 1).map(|w| w.1).unwrap_or_else(|| unit_word(0.)),
        Draw::Threshold => threshold_word(0.),
        Draw::Other => real,
    })));
    let cfg = Cfg {
        steps: act.steps.len() as u64,
        inner: act.inner.unwrap_or(act.steps.len()) as u64,
        kt_start: match mode {
            Mode::AcceptValid => 1e300,
            Mode::HillClimb => 0.,
            Mode::NegativeT => -1.,
        },
        kt_finish: None,
        kt_ratio: Some(0.),
        max_step: act.max_step,
        convergence: None,
        history: 0,
    };
    let builder = cfg.builder();
    let log = Arc::new(Mutex::new(vec![]));
    let log2 = log.clone();
    let res = panic::catch_unwind(AssertUnwindSafe(|| {
        let opt = builder.build();
        fn go<S: State>(opt: &packing::MCOptimiser, s: &S, log: Arc<Mutex<Vec<(Value, Option<f64>)>>>) -> (Value, Option<f64>) {
            let out = opt.optimise_state(Watch { inner: s.clone(), log: log.clone() });
            verif_hooks::install(None);
            // the harness's own closing score() call is not part of the stage
            let n = log.lock().unwrap().len();
            let sc = out.inner_score();
            log.lock().unwrap().truncate(n);
            (serde_json::to_value(&out).unwrap_or(Value::Null), sc)
        }
        match st {
            AnyState::Poly(s) => go(&opt, s, log2),
            AnyState::Mol(s) => go(&opt, s, log2),
            AnyState::Lj(s) => go(&opt, s, log2),
        }
    }));
    verif_hooks::install(None);
    let calls = std::mem::replace(&mut *log.lock().unwrap(), vec![]);
    match res {
        Ok((doc, sc)) => StageResult { returned: Ok(doc), returned_score: sc, calls },
        Err(p) => {
            let msg = if let Some(s) = p.downcast_ref::<&str>() { s.to_string() } else if let Some(s) = p.downcast_ref::<String>() { s.clone() } else { "panic".into() };
            StageResult { returned: Err(msg), returned_score: None, calls }
        }
    }
}

/// Helper so the opaque `impl State` returned by optimise_state can be scored without logging.
trait InnerScore {
    fn inner_score(&self) -> Option<f64>;
}
impl<T: State> InnerScore for T {
    fn inner_score(&self) -> Option<f64> {
        self.score()
    }
}

pub fn key_of(p: &Params) -> [u64; 6] {
    [p.length.to_bits(), p.ratio.to_bits(), p.angle.to_bits(), p.x.to_bits(), p.y.to_bits(), p.phi.to_bits()]
}

/// The action alphabet: every basis index x moves of -1/2, -0.05, +0.05, +1/2 of the range,
/// plus two-step stages that shrink and re-grow a cell parameter inside one stage.
pub fn actions(nbasis: usize) -> Vec<Action> {
    let mut v = vec![];
    let hi = 1. - 1. / 4503599627370496.0;
    for i in 0..nbasis {
        v.push(Action { steps: vec![StageStep { index: i, q: 0. }], max_step: 1., inner: None });
        v.push(Action { steps: vec![StageStep { index: i, q: 0. }], max_step: 0.1, inner: None });
        v.push(Action { steps: vec![StageStep { index: i, q: hi }], max_step: 0.1, inner: None });
        v.push(Action { steps: vec![StageStep { index: i, q: hi }], max_step: 1., inner: None });
    }
    for i in 0..3.min(nbasis) {
        // two extreme shrinks of a cell parameter inside one stage: reaches its lower bound
        v.push(Action { steps: vec![StageStep { index: i, q: 0. }, StageStep { index: i, q: 0. }], max_step: 1., inner: None });
    }
    for i in 0..2.min(nbasis) {
        v.push(Action { steps: vec![StageStep { index: i, q: 0. }, StageStep { index: i, q: hi }], max_step: 0.1, inner: None });
        v.push(Action { steps: vec![StageStep { index: i, q: 0.25 }, StageStep { index: i, q: hi }], max_step: 1., inner: None });
    }
    // moves of several whole ranges (max_step_size 6) on the parameters of the last site and on
    // the cell length: whatever brings such a proposal back must bring it back inside
    for i in nbasis.saturating_sub(3)..nbasis {
        v.push(Action { steps: vec![StageStep { index: i, q: 0. }], max_step: 6., inner: None });
        v.push(Action { steps: vec![StageStep { index: i, q: hi }], max_step: 6., inner: None });
    }
    v.push(Action { steps: vec![StageStep { index: 0, q: 0.4 }], max_step: 6., inner: None });
    // a small move of the last parameter followed by a cell shrink
    v.push(Action { steps: vec![StageStep { index: nbasis - 1, q: 0.7 }, StageStep { index: 0, q: 0.3 }], max_step: 0.1, inner: None });
    v
}

/// Long one-directional drifts (start states only): 24 moves of 1/20 of the range of one
/// parameter in one direction inside a single stage, far enough to cross the whole range.
pub fn drift_actions(nbasis: usize) -> Vec<Action> {
    let hi = 1. - 1. / 4503599627370496.0;
    let mut v = vec![];
    for i in 0..nbasis {
        for &q in [0., hi].iter() {
            // (inner_steps 23: the run is one loop of 23 steps, the 24th is a step too many)
            v.push(Action { steps: (0..24).map(|_| StageStep { index: i, q }).collect(), max_step: 0.1, inner: Some(23) });
        }
    }
    v
}

/// C19 on a real state: the largest change of one parameter a proposal may show.
fn move_too_big(cdoc: &Value, current: &Value, start: &Value, max_step: f64) -> Option<String> {
    let (p, c, s) = (params_of_json(cdoc), params_of_json(current), params_of_json(start));
    let mono = start["cell"]["family"].as_str().unwrap_or("") == "Monoclinic";
    let items = [
        ("cell length", p.length, c.length, s.length - 0.01),
        ("side ratio", p.ratio, c.ratio, s.ratio - 0.1),
        ("cell angle", p.angle, c.angle, if mono { PI / 2. - PI / 6. } else { 0. }),
        ("site x", p.x, c.x, 1.),
        ("site y", p.y, c.y, 1.),
        ("orientation", p.phi, c.phi, 2. * PI),
    ];
    let changed = items.iter().filter(|(_, a, b, _)| a.to_bits() != b.to_bits()).count();
    if changed > 1 {
        return Some(format!("a proposal changed {} parameters at once", changed));
    }
    for (name, a, b, range) in items.iter() {
        let bound = max_step * range.abs() / 2. * (1. + 1e-12) + 8. * f64::EPSILON * a.abs().max(b.abs()).max(1.);
        if (a - b).abs() > bound {
            return Some(format!("a proposal moved the {} from {} to {}: by {} where max_step_size {} times half the range {} allows {}", name, b, a, (a - b).abs(), max_step, range, max_step * range.abs() / 2.));
        }
    }
    None
}

#[derive(Default)]
pub struct Findings {
    pub c01: Vec<(String, Value)>,
    pub c04: Vec<(String, Value)>,
    pub c05: Vec<(String, Value)>,
    pub c08: Vec<(Option<&'static str>, String, Value)>,
    pub c19: Vec<(String, Value)>,
    pub moves_measured: u64,
    pub panics: Vec<(String, Value)>,
    pub states: u64,
    pub transitions: u64,
    pub proposals_seen: u64,
    pub scored_proposals: u64,
    pub rejected_proposals: u64,
    pub clamped_moves: u64,
    pub max_depth: usize,
    pub cap_hit: bool,
    pub c01_nontrivial: u64,
    pub hill_climb_improved: u64,
    pub hill_climb_stayed: u64,
}

impl Findings {
    pub fn merge(&mut self, o: Findings) {
        self.c01.extend(o.c01);
        self.c04.extend(o.c04);
        self.c05.extend(o.c05);
        self.c08.extend(o.c08);
        self.c19.extend(o.c19);
        self.moves_measured += o.moves_measured;
        self.panics.extend(o.panics);
        self.states += o.states;
        self.transitions += o.transitions;
        self.proposals_seen += o.proposals_seen;
        self.scored_proposals += o.scored_proposals;
        self.rejected_proposals += o.rejected_proposals;
        self.clamped_moves += o.clamped_moves;
        self.max_depth = self.max_depth.max(o.max_depth);
        self.cap_hit |= o.cap_hit;
        self.c01_nontrivial += o.c01_nontrivial;
        self.hill_climb_improved += o.hill_climb_improved;
        self.hill_climb_stayed += o.hill_climb_stayed;
    }
}

pub struct Wants {
    pub c01: bool,
    pub c04: bool,
    pub c05: bool,
    pub c08: bool,
    pub c19: bool,
}

fn check_ranges(doc: &Value, start: &Value, what: &str) -> Option<String> {
    let p = params_of_json(doc);
    let s = params_of_json(start);
    let fam = start["cell"]["family"].as_str().unwrap_or("");
    if !(p.length >= 0.01 && p.length <= s.length) {
        return Some(format!("{}: cell length {} outside [0.01, {}]", what, p.length, s.length));
    }
    if !(p.ratio >= 0.1 && p.ratio <= s.ratio) {
        return Some(format!("{}: side ratio {} outside [0.1, {}]", what, p.ratio, s.ratio));
    }
    if fam == "Monoclinic" {
        if !(p.angle >= PI / 6. && p.angle <= PI / 2.) {
            return Some(format!("{}: cell angle {} outside [pi/6, pi/2]", what, p.angle));
        }
    } else if p.angle.to_bits() != s.angle.to_bits() {
        return Some(format!("{}: cell angle of a {} cell changed from {} to {}", what, fam, s.angle, p.angle));
    }
    if !(p.x >= -0.5 && p.x <= 0.5 && p.y >= -0.5 && p.y <= 0.5) {
        return Some(format!("{}: site coordinates ({}, {}) outside [-1/2, 1/2]", what, p.x, p.y));
    }
    if !(p.phi >= 0. && p.phi <= 2. * PI) {
        return Some(format!("{}: orientation {} outside [0, 2pi]", what, p.phi));
    }
    if doc["wallpaper"] != start["wallpaper"] || doc["cell"]["family"] != start["cell"]["family"] || doc["shape"] != start["shape"] || doc["occupied_sites"][0]["wyckoff"] != start["occupied_sites"][0]["wyckoff"] {
        return Some(format!("{}: wallpaper group, crystal family, shape or symmetry list changed", what));
    }
    None
}

/// Breadth-first search from one start state.
pub fn explore(group: &str, spec_label: &str, start: &AnyState, depth: usize, cap: usize, wants: &Wants) -> Findings {
    let mut f = Findings::default();
    let start_doc = start.to_json();
    let shape_json = start_doc["shape"].clone();
    let body = body_from_json(&shape_json);
    let pts = body.points();
    let is_lj = matches!(start, AnyState::Lj(_));
    let nbasis = start.basis_values().len();
    let acts = actions(nbasis);
    let mut visited: HashSet<[u64; 6]> = HashSet::new();
    visited.insert(key_of(&params_of_json(&start_doc)));
    // (state document, path of actions that reached it)
    let mut frontier: Vec<(Value, Vec<usize>)> = vec![(start_doc.clone(), vec![])];
    f.states = 1;
    let case = |doc: &Value, path: &Vec<usize>, act: Option<&Action>| {
        json!({"engine": "rsx", "group": group, "shape_label": spec_label, "start": start_doc, "path": path.iter().map(|i| acts[*i].json()).collect::<Vec<_>>(), "state": doc, "action": act.map(|a| a.json())})
    };
    // start state only: long one-directional drifts, and every action at a negative temperature
    if wants.c08 || wants.c19 {
        let st = AnyState::from_json(&start_doc).unwrap_or_else(|e| machinery_error(&e));
        let drifts = drift_actions(nbasis);
        let extra: Vec<(&Action, Mode)> = drifts.iter().map(|a| (a, Mode::AcceptValid)).chain(acts.iter().map(|a| (a, Mode::NegativeT))).collect();
        for (act, mode) in extra {
            let r = run_stage(&st, act, mode);
            f.transitions += 1;
            let xcase = json!({"engine": "rsx", "group": group, "shape_label": spec_label, "start": start_doc, "path": [], "state": start_doc, "action": act.json(), "mode": format!("{:?}", mode)});
            let mut current: &Value = &start_doc;
            for (ci, (cdoc, ans)) in r.calls.iter().enumerate() {
                if ci == 0 {
                    continue;
                }
                f.proposals_seen += 1;
                if wants.c08 {
                    if let Some(w) = check_ranges(cdoc, &start_doc, "proposal") {
                        if f.c08.len() < 3 {
                            f.c08.push((None, format!("{} {} ({:?}, {} steps): {}", group, spec_label, mode, act.steps.len(), w), xcase.clone()));
                        }
                    }
                }
                if wants.c19 {
                    f.moves_measured += 1;
                    if let Some(w) = move_too_big(cdoc, current, &start_doc, act.max_step) {
                        if f.c19.len() < 3 {
                            f.c19.push((format!("{} {} ({:?}, {} steps): {}", group, spec_label, mode, act.steps.len(), w), xcase.clone()));
                        }
                    }
                }
                if ans.is_some() {
                    current = cdoc;
                }
            }
            if wants.c08 {
                match (&r.returned, r.returned_score) {
                    (Err(msg), _) => {
                        if f.c08.len() < 3 {
                            f.c08.push((None, format!("{} {} ({:?}, {} steps): optimisation of a valid state panicked: {}", group, spec_label, mode, act.steps.len(), msg), xcase.clone()));
                        }
                    }
                    (Ok(out), sc) => {
                        if let Some(w) = check_ranges(out, &start_doc, "returned state") {
                            if f.c08.len() < 3 {
                                f.c08.push((None, format!("{} {} ({:?}, {} steps): {}", group, spec_label, mode, act.steps.len(), w), xcase.clone()));
                            }
                        }
                        if !sc.map(|x| x.is_finite()).unwrap_or(false) && f.c08.len() < 3 {
                            f.c08.push((None, format!("{} {} ({:?}, {} steps): the returned state's score is {:?}, not a finite number", group, spec_label, mode, act.steps.len(), sc), xcase.clone()));
                        }
                    }
                }
            }
        }
    }
    for level in 0..depth {
        let mut next: Vec<(Value, Vec<usize>)> = vec![];
        for (doc, path) in frontier.iter() {
            let st = match AnyState::from_json(doc) {
                Ok(s) => s,
                Err(e) => machinery_error(&format!("rsx: state does not deserialise: {}", e)),
            };
            let in_score = st.score();
            for (ai, act) in acts.iter().enumerate() {
                let r = run_stage(&st, act, Mode::AcceptValid);
                f.transitions += 1;
                // every score() call the optimiser made
                let mut current: &Value = doc;
                for (ci, (cdoc, ans)) in r.calls.iter().enumerate() {
                    if ci == 0 {
                        continue;
                    }
                    if wants.c19 {
                        f.moves_measured += 1;
                        if let Some(w) = move_too_big(cdoc, current, doc, act.max_step) {
                            if f.c19.len() < 3 {
                                f.c19.push((format!("{} {}: {}", group, spec_label, w), case(doc, path, Some(act))));
                            }
                        }
                        // (every valid proposal is accepted in this mode)
                        if ans.is_some() {
                            current = cdoc;
                        }
                    }
                    f.proposals_seen += 1;
                    if ans.is_some() {
                        f.scored_proposals += 1;
                    } else {
                        f.rejected_proposals += 1;
                    }
                    if wants.c08 {
                        if let Some(w) = check_ranges(cdoc, doc, "proposal") {
                            if f.c08.len() < 3 {
                                f.c08.push((None, w, case(doc, path, Some(act))));
                            }
                        }
                    }
                    if wants.c01 && !is_lj && ans.is_some() {
                        let p = params_of_json(cdoc);
                        if let Ok(ps) = AnyState::from_json(cdoc) {
                            let (_, fail, ov) = c01_judge(&ps, &body, &p);
                            if ov.map(|o| o.close_pairs > 0).unwrap_or(false) {
                                f.c01_nontrivial += 1;
                            }
                            if let Some((w, _)) = fail {
                                if f.c01.len() < 3 {
                                    f.c01.push((format!("{} {} (state proposed during optimisation): {}", group, spec_label, w), case(cdoc, path, Some(act))));
                                }
                            }
                        }
                    }
                }
                match &r.returned {
                    Err(msg) => {
                        if f.panics.len() < 3 {
                            f.panics.push((format!("optimiser panicked: {}", msg), case(doc, path, Some(act))));
                        }
                        if wants.c08 && f.c08.len() < 3 {
                            let key = None;
                            f.c08.push((key, format!("{} {}: optimisation of a valid state panicked: {}", group, spec_label, msg), case(doc, path, Some(act))));
                        }
                    }
                    Ok(out) => {
                        let p = params_of_json(out);
                        if wants.c08 {
                            if let Some(w) = check_ranges(out, doc, "returned state") {
                                if f.c08.len() < 3 {
                                    f.c08.push((None, format!("{} {}: {}", group, spec_label, w), case(doc, path, Some(act))));
                                }
                            }
                            match r.returned_score {
                                Some(s) if s.is_finite() => {}
                                other => {
                                    if f.c08.len() < 3 {
                                        f.c08.push((None, format!("{} {}: the returned state's score is {:?}, not a finite number", group, spec_label, other), case(doc, path, Some(act))));
                                    }
                                }
                            }
                        }
                        if wants.c04 {
                            if let Ok(os) = AnyState::from_json(out) {
                                if let Some(w) = c04_judge(group, &os.cartesian(), &pts, &p) {
                                    if f.c04.len() < 3 {
                                        f.c04.push((format!("{} {} after optimisation: {}", group, spec_label, w), case(out, path, Some(act))));
                                    }
                                }
                            }
                        }
                        let k = key_of(&p);
                        if params_of_json(doc) == p {
                            f.clamped_moves += 1;
                        }
                        // (a returned state with a parameter that is not a finite number cannot be
                        // read back: it is judged above, not searched from)
                        let finite = [p.length, p.ratio, p.angle, p.x, p.y, p.phi].iter().all(|v| v.is_finite());
                        if finite && !visited.contains(&k) {
                            if visited.len() >= cap {
                                f.cap_hit = true;
                            } else {
                                visited.insert(k);
                                f.states += 1;
                                let mut np = path.clone();
                                np.push(ai);
                                next.push((out.clone(), np));
                            }
                        }
                    }
                }
                // the same stage as a pure hill climb must not lower the score
                if wants.c05 {
                    let h = run_stage(&st, act, Mode::HillClimb);
                    f.transitions += 1;
                    if let (Ok(_), Some(a)) = (&h.returned, in_score) {
                        match h.returned_score {
                            Some(b) if b >= a => {
                                if b > a {
                                    f.hill_climb_improved += 1;
                                } else {
                                    f.hill_climb_stayed += 1;
                                }
                            }
                            other => {
                                if f.c05.len() < 3 {
                                    f.c05.push((format!("{} {}: kt_start = 0 stage lowered the score from {} to {:?}", group, spec_label, a, other), case(doc, path, Some(act))));
                                }
                            }
                        }
                    }
                }
            }
        }
        f.max_depth = level + 1;
        if next.is_empty() {
            break;
        }
        frontier = next;
    }
    f
}

pub fn start_shapes(tier: Tier) -> Vec<ShapeSpec> {
    let mut v = vec![
        ShapeSpec::Polygon(3),
        ShapeSpec::Polygon(4),
        ShapeSpec::Polygon(6),
        // (a polygon without any rotational symmetry)
        ShapeSpec::Radial(vec![1., 0.6, 0.8, 0.6]),
        ShapeSpec::Circle,
        ShapeSpec::Trimer(0.637556, 120., 1.),
        ShapeSpec::LjCircle,
        ShapeSpec::LjTrimer(0.637556, 120., 1.),
    ];
    if tier == Tier::Thorough {
        v.extend(vec![ShapeSpec::Polygon(5), ShapeSpec::Trimer(0.7, 180., 1.5), ShapeSpec::Trimer(1., 180., 2.), ShapeSpec::LjTrimer(0.7, 180., 1.5)]);
    }
    v
}

/// A dense, non-initial start: the crate's own generator (seeded) hill-climbs for a while.
pub fn dense_start(st: &AnyState, steps: u64, seed: u64) -> Option<AnyState> {
    fn go<S: State>(s: &S, steps: u64, seed: u64) -> Value {
        let mut b = packing::BuildOptimiser::default();
        b.steps(steps).inner_steps(steps).kt_start(0.).kt_ratio(Some(0.)).max_step_size(0.02).seed(seed);
        let out = b.build().optimise_state(s.clone());
        serde_json::to_value(&out).unwrap_or(Value::Null)
    }
    verif_hooks::install(None);
    let r = panic::catch_unwind(AssertUnwindSafe(|| match st {
        AnyState::Poly(s) => go(s, steps, seed),
        AnyState::Mol(s) => go(s, steps, seed),
        AnyState::Lj(s) => go(s, steps, seed),
    }));
    r.ok().and_then(|d| AnyState::from_json(&d).ok())
}

/// One real run of a built optimiser on a copy of the state (real generator, no script).
pub fn run_real(st: &AnyState, b: &packing::BuildOptimiser) -> Result<Value, String> {
    fn go<S: State>(s: &S, b: &packing::BuildOptimiser) -> Value {
        serde_json::to_value(&b.build().optimise_state(s.clone())).unwrap_or(Value::Null)
    }
    verif_hooks::install(None);
    panic::catch_unwind(AssertUnwindSafe(|| match st {
        AnyState::Poly(s) => go(s, b),
        AnyState::Mol(s) => go(s, b),
        AnyState::Lj(s) => go(s, b),
    }))
    .map_err(|p| if let Some(s) = p.downcast_ref::<&str>() { s.to_string() } else if let Some(s) = p.downcast_ref::<String>() { s.clone() } else { "panic".into() })
}

/// Delegating State that feeds the explorer's event stream (parameter vector = the six numbers
/// of the serialised state).
pub struct Recorder<S: State> {
    pub inner: S,
    pub events: Arc<Mutex<Vec<crate::mcx::Event>>>,
}
impl<S: State> Clone for Recorder<S> {
    fn clone(&self) -> Self {
        Recorder { inner: self.inner.clone(), events: self.events.clone() }
    }
}
impl<S: State> std::fmt::Debug for Recorder<S> {
    fn fmt(&self, f: &mut std::fmt::Formatter) -> std::fmt::Result {
        self.inner.fmt(f)
    }
}
impl<S: State> Serialize for Recorder<S> {
    fn serialize<Z: Serializer>(&self, s: Z) -> Result<Z::Ok, Z::Error> {
        self.inner.serialize(s)
    }
}
impl<S: State> PartialEq for Recorder<S> {
    fn eq(&self, o: &Self) -> bool {
        self.inner == o.inner
    }
}
impl<S: State> Eq for Recorder<S> {}
impl<S: State> PartialOrd for Recorder<S> {
    fn partial_cmp(&self, o: &Self) -> Option<std::cmp::Ordering> {
        self.inner.partial_cmp(&o.inner)
    }
}
impl<S: State> Ord for Recorder<S> {
    fn cmp(&self, o: &Self) -> std::cmp::Ordering {
        self.inner.cmp(&o.inner)
    }
}
impl<S: State> ToSVG for Recorder<S> {
    type Value = Document;
    fn as_svg(&self) -> Document {
        self.inner.as_svg()
    }
}
impl<S: State> State for Recorder<S> {
    fn score(&self) -> Option<f64> {
        let s = self.inner.score();
        let doc = serde_json::to_value(&self.inner).unwrap_or(Value::Null);
        let p = params_of_json(&doc).as_vec();
        self.events.lock().unwrap().push(crate::mcx::Event::Score(p, s, 0));
        s
    }
    fn generate_basis(&self) -> Vec<StandardBasis> {
        self.inner.generate_basis()
    }
    fn total_shapes(&self) -> usize {
        self.inner.total_shapes()
    }
    fn as_positions(&self) -> Result<String, anyhow::Error> {
        self.inner.as_positions()
    }
}

/// A complete real run (the crate's own seeded generator, nothing scripted), observed: every
/// score() call with the six parameters it saw, and every tagged draw.
pub fn observed_real_run(st: &AnyState, cfg: &Cfg, seed: u64) -> crate::mcx::Obs {
    let events: Arc<Mutex<Vec<crate::mcx::Event>>> = Arc::new(Mutex::new(vec![]));
    let ev2 = events.clone();
    verif_hooks::install(Some(Box::new(move |draw, real| {
        ev2.lock().unwrap().push(crate::mcx::Event::Drew(draw, real));
        real
    })));
    let mut builder = cfg.builder();
    builder.seed(seed);
    let ev3 = events.clone();
    let res = panic::catch_unwind(AssertUnwindSafe(|| {
        let opt = builder.build();
        fn go<S: State>(opt: &packing::MCOptimiser, s: &S, events: Arc<Mutex<Vec<crate::mcx::Event>>>) -> (Vec<f64>, Option<f64>) {
            let out = opt.optimise_state(Recorder { inner: s.clone(), events: events.clone() });
            verif_hooks::install(None);
            let n = events.lock().unwrap().len();
            let sc = out.inner_score();
            events.lock().unwrap().truncate(n);
            let doc = serde_json::to_value(&out).unwrap_or(Value::Null);
            (params_of_json(&doc).as_vec(), sc)
        }
        match st {
            AnyState::Poly(s) => go(&opt, s, ev3),
            AnyState::Mol(s) => go(&opt, s, ev3),
            AnyState::Lj(s) => go(&opt, s, ev3),
        }
    }));
    verif_hooks::install(None);
    let mut obs = crate::mcx::Obs::default();
    match res {
        Ok((fp, fs)) => {
            obs.final_params = Some(fp);
            obs.final_score = Some(fs);
        }
        Err(p) => {
            obs.panic = Some(if let Some(s) = p.downcast_ref::<&str>() { s.to_string() } else if let Some(s) = p.downcast_ref::<String>() { s.clone() } else { "panic".into() });
        }
    }
    let evs = std::mem::replace(&mut *events.lock().unwrap(), vec![]);
    crate::mcx::fold_events(&mut obs, evs);
    obs
}

/// Real hard and LJ states under the crate's own generator: returns (runs, steps, failures per
/// class) for the monitors of C05/C06/C07. Supplementary to the scripted exploration: the seeds
/// are a sample, every step of every sampled run is judged.
pub struct RealRuns {
    pub runs: u64,
    pub steps: u64,
    pub accepted: u64,
    pub rejected: u64,
    pub c05: Vec<(String, Value)>,
    pub c06: Vec<(String, Value)>,
    pub c07: Vec<(String, Value)>,
}

pub fn real_runs(tier: Tier) -> RealRuns {
    use crate::mcx::*;
    let mut jobs: Vec<(String, ShapeSpec, Cfg, u64)> = vec![];
    let shapes = [ShapeSpec::Polygon(4), ShapeSpec::Trimer(0.637556, 120., 1.), ShapeSpec::LjTrimer(0.637556, 120., 1.), ShapeSpec::LjCircle];
    for g in GROUP_NAMES.iter() {
        for s in shapes.iter() {
            for (ci, cfg) in [
                Cfg { steps: 60, inner: 20, kt_start: 0., kt_finish: Some(1e-3), kt_ratio: None, max_step: 0.05, convergence: None, history: 0 },
                Cfg { steps: 60, inner: 60, kt_start: 0.2, kt_finish: None, kt_ratio: Some(0.), max_step: 0.1, convergence: None, history: 0 },
                Cfg { steps: 40, inner: 10, kt_start: 0., kt_finish: None, kt_ratio: Some(0.5), max_step: 0.5, convergence: Some(1e-4), history: 0 },
            ]
            .iter()
            .enumerate()
            {
                for seed in 0..tier.pick(2u64, 8u64) {
                    if tier == Tier::Quick && (ci + seed as usize) % 2 == 1 && *g != "p2" {
                        continue;
                    }
                    jobs.push((g.to_string(), s.clone(), cfg.clone(), seed));
                }
            }
        }
    }
    let prev_hook = panic::take_hook();
    panic::set_hook(Box::new(|_| {}));
    let outs = par_map(&jobs, |_, (g, s, cfg, seed)| {
        let init = AnyState::from_group(g, s);
        // start from a moderately dense state so that rejections and clamps occur
        let mut start = dense_start(&init, 150, 3).unwrap_or(init);
        // every other seed: the same crystal with the site stored one cell further along x and
        // two cells back along y (a file may say so)
        if seed % 2 == 1 {
            let mut doc = start.to_json();
            let (x, y) = (doc["occupied_sites"][0]["x"].as_f64().unwrap_or(0.), doc["occupied_sites"][0]["y"].as_f64().unwrap_or(0.));
            doc["occupied_sites"][0]["x"] = json!(x + 1.);
            doc["occupied_sites"][0]["y"] = json!(y - 2.);
            if let Ok(s2) = AnyState::from_json(&doc) {
                if s2.score().is_some() {
                    start = s2;
                }
            }
        }
        let s_in = start.score();
        let obs = observed_real_run(&start, cfg, *seed);
        let an = analyse(cfg, &obs, None);
        let case = json!({"engine": "real-run", "group": g, "shape_label": s.label(), "start": start.to_json(), "cfg": cfg.json(), "seed": seed});
        let (mut c05, mut c06, mut c07) = (vec![], vec![], vec![]);
        if obs.panic.is_none() {
            if let Some(t) = an.not_derived_at {
                c06.push((format!("{} {} seed {}: proposal {} differs in more than one parameter from every state the run could be in", g, s.label(), seed, t), case.clone()));
            } else if an.final_mismatch {
                c06.push((format!("{} {} seed {}: the returned state is not the state of any consistent accept/reject history", g, s.label(), seed), case.clone()));
            } else {
                let f7 = an.flags_all & (F_NONE_ACCEPTED | F_BETTER_REJECTED | F_WORSE_ACCEPTED_ZERO_T_FIRST | F_METROPOLIS_FIRST_LOOP | if cfg.kt_ratio.is_some() { F_WORSE_ACCEPTED_ZERO_T_LATER } else { 0 });
                if f7 != 0 {
                    c07.push((format!("{} {} seed {}: {} (first at step {})", g, s.label(), seed, flag_names(f7).join("; "), an.first_flag_step), case.clone()));
                }
                if cfg.kt_start == 0. {
                    let f5 = an.flags_all & (F_SCORE_DECREASED | F_WORSE_ACCEPTED_ZERO_T_FIRST | F_WORSE_ACCEPTED_ZERO_T_LATER);
                    let out_ok = match (s_in, obs.final_score) {
                        (Some(a), Some(Some(b))) => b >= a,
                        _ => false,
                    };
                    if f5 != 0 || !out_ok {
                        c05.push((format!("{} {} seed {}: kt_start = 0 but the score went from {:?} to {:?} ({})", g, s.label(), seed, s_in, obs.final_score, flag_names(f5).join("; ")), case.clone()));
                    }
                }
            }
        }
        (obs.proposals.len() as u64, an.accepts as u64, an.rejects as u64, c05, c06, c07)
    });
    panic::set_hook(prev_hook);
    let mut r = RealRuns { runs: jobs.len() as u64, steps: 0, accepted: 0, rejected: 0, c05: vec![], c06: vec![], c07: vec![] };
    for (n, a, j, c05, c06, c07) in outs {
        r.steps += n;
        r.accepted += a;
        r.rejected += j;
        r.c05.extend(c05);
        r.c06.extend(c06);
        r.c07.extend(c07);
    }
    r
}

pub struct Sweep {
    pub depth: usize,
    pub cap: usize,
    pub dense_steps: u64,
    pub shapes: Vec<ShapeSpec>,
}

pub fn sweep(cfg: &Sweep, wants: &Wants) -> (Findings, u64) {
    crate::mcx::calibrate();
    let mut jobs: Vec<(String, ShapeSpec, bool)> = vec![];
    for g in GROUP_NAMES.iter() {
        for s in cfg.shapes.iter() {
            jobs.push((g.to_string(), s.clone(), false));
            if cfg.dense_steps > 0 {
                jobs.push((g.to_string(), s.clone(), true));
            }
        }
    }
    let prev_hook = panic::take_hook();
    panic::set_hook(Box::new(|_| {}));
    let outs = par_map(&jobs, |_, (g, s, dense)| {
        let init = AnyState::from_group(g, s);
        let start = if *dense {
            match dense_start(&init, cfg.dense_steps, 7) {
                Some(d) => d,
                None => return Findings::default(),
            }
        } else {
            init
        };
        explore(g, &s.label(), &start, cfg.depth, cfg.cap, wants)
    });
    panic::set_hook(prev_hook);
    let mut f = Findings::default();
    let n = outs.len() as u64;
    for o in outs {
        f.merge(o);
    }
    (f, n)
}

pub fn replay(case: &Value) -> ! {
    crate::mcx::calibrate();
    let start = AnyState::from_json(&case["start"]).unwrap_or_else(|e| machinery_error(&e));
    println!("start: {}", params_of_json(&case["start"]).json());
    let mut cur = start;
    let mut acts: Vec<Action> = case["path"].as_array().map(|a| a.iter().map(Action::from_json).collect()).unwrap_or_default();
    if !case["action"].is_null() {
        acts.push(Action::from_json(&case["action"]));
    }
    for (i, a) in acts.iter().enumerate() {
        let r = run_stage(&cur, a, Mode::AcceptValid);
        println!("stage {}: {}", i + 1, a.json());
        for (d, s) in r.calls.iter() {
            println!("    score() saw {} -> {:?}", params_of_json(d).json(), s);
        }
        match r.returned {
            Ok(d) => {
                println!("    returned {} score {:?}", params_of_json(&d).json(), r.returned_score);
                cur = AnyState::from_json(&d).unwrap_or_else(|e| machinery_error(&e));
            }
            Err(m) => {
                println!("    panicked: {}", m);
                break;
            }
        }
    }
    std::process::exit(0)
}

// ------------------------------------------------------------------------------------------
// C08

pub fn c08(tier: Tier) -> ! {
    let mut run = Run::new("C08", tier, "model_checking");
    let cfg = Sweep { depth: tier.pick(3, 5), cap: tier.pick(4000, 200_000), dense_steps: 300, shapes: start_shapes(tier) };
    let wants = Wants { c01: false, c04: false, c05: false, c08: true, c19: false };
    let (f, starts) = sweep(&cfg, &wants);
    for (k, w, c) in f.c08 {
        run.fail(k, &w, c);
    }
    // every supported group with any shape of well-defined area starts from a valid state
    let mut init_evals = 0u64;
    let mut shapes = crate::geo1::c02_shapes(tier);
    shapes.push(ShapeSpec::LjCircle);
    for &(r, a, d) in [(0.637556, 120., 1.), (0.7, 180., 1.5), (1., 180., 2.), (0.5, 60., 1.2), (0.2, 30., 0.3), (1.5, 150., 2.5)].iter() {
        shapes.push(ShapeSpec::LjTrimer(r, a, d));
    }
    for g in GROUP_NAMES.iter() {
        for s in shapes.iter() {
            let body = s.body();
            let area = body.area();
            if !(area.is_finite() && area > 0.) {
                continue;
            }
            init_evals += 1;
            let st = AnyState::from_group(g, s);
            let doc = st.to_json();
            let p = params_of_json(&doc);
            let case = json!({"engine": "state", "group": g, "shape": s.json(), "shape_label": s.label(), "params": p.json()});
            let crate_area_ok = match &st {
                AnyState::Lj(_) => true,
                AnyState::Poly(x) => x.shape.area().is_finite(),
                AnyState::Mol(x) => x.shape.area().is_finite(),
            };
            match st.score() {
                Some(x) if x.is_finite() => {}
                other => {
                    let key = if !crate_area_ok { Some("initial-score-nan-from-trimer-area") } else { None };
                    run.fail(key, &format!("{} {}: the initial state's score is {:?}", g, s.label(), other), case.clone());
                }
            }
            if !(p.x >= -0.5 && p.x <= 0.5 && p.y >= -0.5 && p.y <= 0.5 && p.phi >= 0. && p.phi <= 2. * PI && p.ratio >= 0.1 && p.length >= 0.01) {
                run.fail(None, &format!("{} {}: initial parameters out of range", g, s.label()), case.clone());
            }
            if !s.is_lj() && body.is_convex() {
                if let Some(o) = lattice_max_depth(&body, &st.cartesian(), &p.lattice(), 400, 1e-9) {
                    if o.depth > 1e-9 {
                        run.fail(None, &format!("{} {}: copies overlap by {:e} in the initial state", g, s.label(), o.depth), case.clone());
                    }
                }
            } else if s.is_lj() {
                // distinct LJ copies must not coincide (the energy would not be finite)
                let c = st.cartesian();
                for i in 0..c.len() {
                    for j in (i + 1)..c.len() {
                        if norm(sub(c[i].t, c[j].t)) < 1e-9 {
                            run.fail(None, &format!("{} {}: copies {} and {} coincide in the initial state", g, s.label(), i, j), case.clone());
                        }
                    }
                }
            }
        }
    }
    // cells of the two families none of the seven groups uses (a library caller can build them):
    // chained stages leave a hexagonal and a square cell with equal sides and their angle
    let mut odd_family_stages = 0u64;
    {
        use packing::wallpaper::WallpaperGroup;
        use packing::{CrystalFamily, LineShape, PackedState, PotentialState, LJShape2};
        fn stages<S: State>(s: S, seed: u64) -> Value {
            let mut b = packing::BuildOptimiser::default();
            b.steps(200).inner_steps(40).kt_start(0.3).kt_finish(0.01).max_step_size(0.3).seed(seed);
            let a = b.build().optimise_state(s);
            let c = b.seed(seed + 1).build().optimise_state(a);
            serde_json::to_value(&b.seed(seed + 2).build().optimise_state(c)).unwrap_or(Value::Null)
        }
        for (name, fam, ops) in [
            ("p3", CrystalFamily::Hexagonal, vec!["x,y", "-y,x-y", "-x+y,-x"]),
            ("p1 in a hexagonal cell", CrystalFamily::Hexagonal, vec!["x,y"]),
            ("p4", CrystalFamily::Tetragonal, vec!["x,y", "-y,x", "-x,-y", "y,-x"]),
        ]
        .iter()
        {
            let wg = WallpaperGroup { name, family: *fam, wyckoff_str: ops.clone() };
            for seed in 0..tier.pick(3u64, 10u64) {
                let mut docs: Vec<(Value, Value)> = vec![];
                let prev_hook = panic::take_hook();
                panic::set_hook(Box::new(|_| {}));
                if let Ok(h) = PackedState::from_group(LineShape::polygon(3).unwrap(), &wg) {
                    let before = serde_json::to_value(&h).unwrap_or(Value::Null);
                    match panic::catch_unwind(AssertUnwindSafe(|| stages(h, seed))) {
                        Ok(after) => docs.push((before, after)),
                        Err(_) => run.fail(None, &format!("{} ({:?} cell): optimisation of a valid state panicked", name, fam), json!({"engine": "document", "group": name, "state": before})),
                    }
                }
                if let Ok(l) = PotentialState::from_group(LJShape2::circle(), &wg) {
                    let before = serde_json::to_value(&l).unwrap_or(Value::Null);
                    match panic::catch_unwind(AssertUnwindSafe(|| stages(l, seed))) {
                        Ok(after) => docs.push((before, after)),
                        Err(_) => run.fail(None, &format!("{} ({:?} cell): optimisation of a valid state panicked", name, fam), json!({"engine": "document", "group": name, "state": before})),
                    }
                }
                panic::set_hook(prev_hook);
                for (before, after) in docs {
                    odd_family_stages += 1;
                    let (b, a) = (&before["cell"], &after["cell"]);
                    let same = |k: &str| a[k].as_f64().map(f64::to_bits) == b[k].as_f64().map(f64::to_bits);
                    if !(same("ratio") && same("angle") && a["family"] == b["family"]) {
                        run.fail(None, &format!("{} ({:?} cell): three chained stages changed the side ratio or the angle of the cell: {} -> {}", name, fam, b, a), json!({"engine": "document", "group": name, "state": after}));
                    }
                }
            }
        }
    }
    run.set("hexagonal_and_square_cell_chains", odd_family_stages);
    // jammed states, a convergence threshold and very short inner loops with large steps (most
    // proposals refused, many in a row): the state handed back has a score and lies in its ranges
    let mut jam_runs = 0u64;
    {
        let prev_hook = panic::take_hook();
        panic::set_hook(Box::new(|_| {}));
        for g in ["p1", "p2", "p2gg", "p1m1"].iter() {
            for spec in [ShapeSpec::Polygon(4), ShapeSpec::Trimer(0.637556, 120., 1.), ShapeSpec::LjCircle].iter() {
                for seed in 0..tier.pick(3u64, 10u64) {
                    let start = match dense_start(&AnyState::from_group(g, spec), 600, seed) {
                        Some(s) => s,
                        None => continue,
                    };
                    for &(inner, ms) in [(3u64, 0.5), (4, 1.), (1, 0.3)].iter() {
                        let mut b = packing::BuildOptimiser::default();
                        b.steps(240).inner_steps(inner).kt_start(0.).kt_ratio(Some(0.)).max_step_size(ms).convergence(Some(1e-6)).seed(seed + 11);
                        jam_runs += 1;
                        let case = json!({"engine": "document", "group": g, "shape_label": spec.label(), "state": start.to_json(), "inner_steps": inner, "max_step_size": ms, "seed": seed + 11});
                        match run_real(&start, &b) {
                            Err(msg) => run.fail(None, &format!("{} {}: a run from a jammed state (inner_steps {}, convergence 1e-6) panicked: {}", g, spec.label(), inner, msg), case),
                            Ok(doc) => {
                                let sc = AnyState::from_json(&doc).ok().and_then(|s| s.score());
                                if !sc.map(|x| x.is_finite()).unwrap_or(false) {
                                    run.fail(None, &format!("{} {}: a run from a jammed state (inner_steps {}, convergence 1e-6) handed back a state whose score is {:?}", g, spec.label(), inner, sc), case);
                                } else if let Some(w) = check_ranges(&doc, &start.to_json(), "returned state") {
                                    run.fail(None, &format!("{} {}: {}", g, spec.label(), w), case);
                                }
                            }
                        }
                    }
                }
            }
        }
        panic::set_hook(prev_hook);
    }
    run.set("runs_from_jammed_states_with_a_threshold", jam_runs);
    run.set("states", f.states);
    run.set("transitions", f.transitions);
    run.set("traces_validated_against_impl", f.transitions);
    run.set("start_states", starts);
    run.set("max_depth", f.max_depth as u64);
    run.set("state_cap_per_start", cfg.cap as u64);
    run.set("proposals_observed", f.proposals_seen);
    run.set("proposals_without_score", f.rejected_proposals);
    run.set("stages_that_left_the_state_unchanged", f.clamped_moves);
    run.set("initial_states_checked", init_evals);
    run.capped = f.cap_hit;
    run.set("exhaustive", !f.cap_hit);
    run.set("explanation", "Breadth-first search whose transition is one real call of optimise_state (a stage of 1 or 2 steps, bounds re-derived from the current values exactly as when stages are chained) on a deep copy, with the draws scripted: every parameter x moves of -1/2, -0.05, +0.05, +1/2 of its range (so bound clamping and small moves both occur) plus shrink-and-regrow two-step stages, accepting every valid proposal. Start states: the constructor's initial state and a dense state (300 real hill-climb steps) for 7 groups x shapes x {hard, LJ}. States are deduplicated on the bit patterns of the six parameters; search depth and the per-start state cap are reported. Every proposal and every returned state must have its parameters in the declared ranges relative to the stage start, the family/group/shape unchanged, and every returned state a finite score. Initial states of the full shape lattice are checked for validity separately.");
    run.sample(json!({"group": "p2", "shape": "lj-circle", "action": {"max_step_size": 1., "steps": [{"index": 3, "q": 0.}]}, "note": "x clamped to -1/2"}));
    run.require(f.states > 1000 && f.rejected_proposals > 0 && f.clamped_moves > 0, "search must reach many states, rejected proposals and clamped moves");
    run.finish()
}
