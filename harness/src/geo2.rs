// State-level lattice sweeps: C01 (no overlap anywhere in the tiling), C03 (LJ lattice energy),
// C04 (symmetry of the placed crystal).

use std::f64::consts::PI;

use serde_json::{json, Value};

use packing::traits::*;

use crate::common::*;
use crate::oracle::*;
use crate::states::*;

pub const TOL: f64 = 1e-9;

// ------------------------------------------------------------------------------------------
// shared judges (also used by the reachable-state search)

/// C01 oracle on one real state: Some(description) if the state is scored although two images
/// overlap by more than the tolerance.
pub fn c01_judge(st: &AnyState, body: &Body, p: &Params) -> (bool, Option<(String, Value)>, Option<LatticeOverlap>) {
    let score = st.score();
    let scored = score.is_some();
    if !scored {
        return (false, None, None);
    }
    let lat = p.lattice();
    let placements = st.cartesian();
    match lattice_max_depth(body, &placements, &lat, 400, TOL) {
        None => (true, None, None),
        Some(o) => {
            if o.depth > TOL {
                let what = format!(
                    "score {:?} reported although copy {} and copy {} shifted by {}A+{}B overlap by {:e}",
                    score, o.i, o.j, o.n, o.m, o.depth
                );
                (true, Some((what, json!({"overlap": {"i": o.i, "j": o.j, "n": o.n, "m": o.m, "depth": o.depth}}))), Some(o))
            } else {
                (true, None, Some(o))
            }
        }
    }
}

pub fn c01_shapes() -> Vec<ShapeSpec> {
    let mut v = vec![];
    for n in 3..=8 {
        v.push(ShapeSpec::Polygon(n));
    }
    v.push(ShapeSpec::Circle);
    // (the last three: small arms, so the disc reaching farthest is not the one whose centre is farthest; in the last one the central disc out-reaches both)
    for &(r, a, d) in [(0.637556, 120., 1.), (0.7, 180., 1.5), (1., 180., 2.), (0.5, 60., 1.2), (0.3, 120., 1.), (0.2, 90., 1.1), (0.2, 120., 0.2)].iter() {
        v.push(ShapeSpec::Trimer(r, a, d));
    }
    v
}

fn cell_grid(group: &str, tier: Tier) -> Vec<(f64, f64)> {
    // (ratio, angle): the old heuristic's thresholds a/b = 2, 3 sit at ratio 1/2 and 1/3
    let ratios: Vec<f64> = match tier {
        Tier::Quick => vec![1., 0.8, 0.51, 0.49, 0.34, 0.32, 0.2, 0.1],
        Tier::Thorough => vec![1., 0.8, 0.6, 0.51, 0.5, 0.49, 0.4, 0.34, 0.33, 0.32, 0.2, 0.1],
    };
    let angles: Vec<f64> = if ita_family(group) == "Monoclinic" {
        match tier {
            Tier::Quick => vec![PI / 2., PI / 2. - 0.21, PI / 2. - 0.51, PI / 3., PI / 6., 2.1],
            Tier::Thorough => vec![PI / 2., PI / 2. - 0.19, PI / 2. - 0.21, PI / 2. - 0.49, PI / 2. - 0.51, PI / 3., 0.7, PI / 6., 2.1, 2.6],
        }
    } else {
        vec![PI / 2.]
    };
    let mut v = vec![];
    for &r in ratios.iter() {
        for &a in angles.iter() {
            v.push((r, a));
        }
    }
    v
}

/// Lengths from dilute to clearly overlapping for a body in a cell of given ratio/angle.
fn length_ladder(body: &Body, n_copies: usize, ratio: f64, angle: f64, step: f64) -> Vec<f64> {
    let r = body.enclosing_radius();
    // dilute: every copy has a 2R x 2R box of its own along the short side
    let top = 4.2 * r * n_copies as f64 / (ratio * angle.sin()).sqrt().max(0.2);
    // dense limit: cell area equals total shape area
    let bottom = (0.8 * n_copies as f64 * body.area() / (ratio * angle.sin())).sqrt();
    let mut v = vec![];
    let mut l = top;
    while l > bottom {
        v.push(l);
        l *= step;
    }
    v
}

#[derive(Default)]
struct C01Out {
    evals: u64,
    scored: u64,
    nontrivial: u64,
    skipped: u64,
    fails: Vec<(String, Value)>,
    fail_count: u64,
    far_image_cases: u64,
}

fn c01_eval(tpl: &StateTemplate, group: &str, spec: &ShapeSpec, body: &Body, p: &Params, out: &mut C01Out, lattice_name: &str) {
    out.evals += 1;
    let st = match AnyState::from_json(&tpl.with(p)) {
        Ok(s) => s,
        Err(e) => machinery_error(&format!("state does not deserialise: {}", e)),
    };
    let (scored, fail, ov) = c01_judge(&st, body, p);
    if scored {
        out.scored += 1;
        match &ov {
            None => out.skipped += 1,
            Some(o) => {
                if o.close_pairs > 0 {
                    out.nontrivial += 1;
                }
            }
        }
    }
    if let Some((what, extra)) = fail {
        out.fail_count += 1;
        if let Some(o) = &ov {
            if o.n.abs() > 1 || o.m.abs() > 1 {
                out.far_image_cases += 1;
            }
        }
        if out.fails.len() < 2 {
            out.fails.push((
                format!("{} {}: {}", group, spec.label(), what),
                json!({"engine": "state", "lattice": lattice_name, "group": group, "shape": spec.json(), "shape_label": spec.label(), "params": p.json(), "detail": extra}),
            ));
        }
    }
}

pub fn c01(tier: Tier) -> ! {
    let mut run = Run::new("C01", tier, "model_checking");
    let shapes = c01_shapes();
    let mut jobs: Vec<(String, ShapeSpec, usize)> = vec![];
    for g in GROUP_NAMES.iter() {
        for s in shapes.iter() {
            for lattice in 1..=3usize {
                jobs.push((g.to_string(), s.clone(), lattice));
            }
        }
    }
    let seed = run.seed;
    let results = par_map(&jobs, |_, (group, spec, lattice)| {
        let mut out = C01Out::default();
        let body = spec.body();
        let sj = spec.json();
        let tpl = StateTemplate::new(group, &sj);
        let ops = ita_ops(group);
        let n = ops.len();
        let r = body.enclosing_radius();
        let step = tier.pick(0.93, 0.97);
        let nsides = match &body {
            Body::Poly(v) => v.len(),
            _ => 6,
        };
        let phis: Vec<f64> = match tier {
            Tier::Quick => vec![0., PI / nsides as f64, 0.3217505543966422, 2.5, 5.364],
            Tier::Thorough => vec![0., PI / nsides as f64, 2. * PI / nsides as f64, PI / 2., PI, 0.3217505543966422, 1.0, 2.5, 4.2, 5.364, 2. * PI],
        };
        match lattice {
            1 => {
                // generic coordinate grid, dense near 0, +-1/4, +-1/2
                let xs: Vec<f64> = match tier {
                    Tier::Quick => vec![0., 0.1, -0.2, 0.24, -0.25, 0.26, -0.4, 0.47, -0.49, 0.5, -0.5],
                    Tier::Thorough => vec![0., 0.1, -0.1, 0.2, -0.2, 0.24, -0.24, 0.25, -0.25, 0.26, -0.26, 0.3, -0.3, 0.4, -0.4, 0.44, -0.44, 0.47, -0.47, 0.49, -0.49, 0.5, -0.5],
                };
                for (ratio, angle) in cell_grid(group, tier) {
                    let lengths = length_ladder(&body, n, ratio, angle, step);
                    for (xi, &x) in xs.iter().enumerate() {
                        for (yi, &y) in xs.iter().enumerate() {
                            // rotate which orientations go with which site to keep the product affordable
                            for (pi, &phi) in phis.iter().enumerate() {
                                if tier == Tier::Quick && (xi + yi + pi + seed as usize) % 3 != 0 {
                                    continue;
                                }
                                if tier == Tier::Thorough && (xi + yi + pi + seed as usize) % 2 != 0 {
                                    continue;
                                }
                                for &length in lengths.iter() {
                                    let p = Params { length, ratio, angle, x, y, phi };
                                    c01_eval(&tpl, group, spec, &body, &p, &mut out, "generic grid");
                                }
                            }
                        }
                    }
                }
            }
            2 => {
                // displacement-directed: force a chosen pair of copies to a chosen Cartesian
                // displacement v (|v| < 2R) modulo the lattice and let the wrap pick the image
                let dirs = tier.pick(8, 16);
                let mags: Vec<f64> = tier.pick(vec![0.5, 1.0, 1.5, 1.9], vec![0.25, 0.5, 0.75, 1.0, 1.25, 1.5, 1.75, 1.95]);
                let free_vals = [0.13, -0.37];
                for k in 0..n {
                    for l in (k + 1)..n {
                        let d = [[ops[l].w[0][0] - ops[k].w[0][0], 0], [0, ops[l].w[1][1] - ops[k].w[1][1]]];
                        let dw = [(ops[l].t2[0] - ops[k].t2[0]) as f64 / 2., (ops[l].t2[1] - ops[k].t2[1]) as f64 / 2.];
                        for (ratio, angle) in cell_grid(group, tier) {
                            let lengths = length_ladder(&body, n, ratio, angle, tier.pick(0.9, 0.95));
                            for di in 0..dirs {
                                let a = 0.1 + di as f64 * 2. * PI / dirs as f64;
                                for &mag in mags.iter() {
                                    let v = [mag * r * a.cos(), mag * r * a.sin()];
                                    for (pi, &phi) in phis.iter().enumerate() {
                                        if (di + pi + seed as usize) % tier.pick(4, 2) != 0 {
                                            continue;
                                        }
                                        for &length in lengths.iter() {
                                            let lat = Lattice::new(length, ratio, angle);
                                            let f = lat.frac(v);
                                            // solve (W_l - W_k) s + (w_l - w_k) = f (mod 1) per axis
                                            let mut sols: Vec<Vec<f64>> = vec![];
                                            for ax in 0..2 {
                                                let dd = d[ax][ax];
                                                if dd != 0 {
                                                    let s = (f[ax] - dw[ax]) / dd as f64;
                                                    sols.push(vec![s, s + 0.5]);
                                                } else {
                                                    sols.push(free_vals.to_vec());
                                                }
                                            }
                                            for &sx in sols[0].iter() {
                                                for &sy in sols[1].iter() {
                                                    let p = Params { length, ratio, angle, x: wrap_half(sx), y: wrap_half(sy), phi };
                                                    c01_eval(&tpl, group, spec, &body, &p, &mut out, "displacement-directed");
                                                }
                                            }
                                        }
                                    }
                                }
                            }
                        }
                    }
                }
                if n == 1 {
                    // p1: only self images; covered by lattice 1 and 3
                }
            }
            _ => {
                // special positions that bound clamping reaches: every subset of site
                // parameters at a bound, the cell parameters at their bounds
                let xb = [-0.5, 0.5, 0.2];
                let phib = [0., 2. * PI, 1.1];
                for (ratio, angle) in cell_grid(group, tier) {
                    let lengths = length_ladder(&body, n, ratio, angle, tier.pick(0.95, 0.98));
                    for &x in xb.iter() {
                        for &y in xb.iter() {
                            for &phi in phib.iter() {
                                for &length in lengths.iter() {
                                    let p = Params { length, ratio, angle, x, y, phi };
                                    c01_eval(&tpl, group, spec, &body, &p, &mut out, "special positions");
                                }
                            }
                        }
                    }
                }
                // sites near the middle of the cell (where the copies made by glides and two-fold
                // axes sit on the cell faces), every orientation, a fine ladder of cell sizes
                // around the size at which copies half a cell apart start to touch
                for &ratio in [1., 0.8].iter() {
                    let mut l = 4.4 * r / ratio;
                    while l > 1.2 * r {
                        for &x in [0., 0.03, -0.05, 0.1, -0.13].iter() {
                            for &y in [-0.17, -0.09, 0.08, 0.21, 0.33].iter() {
                                for (pi, &phi) in phis.iter().enumerate() {
                                    let p = Params { length: l, ratio, angle: PI / 2., x, y, phi };
                                    c01_eval(&tpl, group, spec, &body, &p, &mut out, "mid-cell sites");
                                    // (every other orientation also with the site stored three cells
                                    // along x and two cells back along y: the same crystal)
                                    if pi % 2 == 1 {
                                        let p = Params { length: l, ratio, angle: PI / 2., x: x + 3., y: y - 2., phi };
                                        c01_eval(&tpl, group, spec, &body, &p, &mut out, "mid-cell sites");
                                    }
                                }
                            }
                        }
                        l *= 0.985;
                    }
                }
                // two occupied general sites (the library accepts any list of sites): the second
                // site near the first one's images across a cell face, and at generic offsets
                let general = wyckoff_json(group);
                for (ratio, angle) in cell_grid(group, tier).into_iter().filter(|(r, _)| *r == 1. || *r == 0.51 || *r == 0.2) {
                    let lengths = length_ladder(&body, 2 * n, ratio, angle, tier.pick(0.93, 0.97));
                    for &(x1, y1, x2, y2, phi2) in [(-0.45, 0.1, 0.45, 0.12, 0.3), (0.1, -0.47, 0.13, 0.46, 2.5), (0.2, 0.2, -0.3, -0.1, 1.1), (-0.48, -0.48, 0.47, 0.49, 0.)].iter() {
                        for &length in lengths.iter() {
                            let p = Params { length, ratio, angle, x: x1, y: y1, phi: 0.7 };
                            let doc = with_second_site(&tpl.with(&p), &general, x2, y2, phi2);
                            out.evals += 1;
                            let st = match AnyState::from_json(&doc) {
                                Ok(s) => s,
                                Err(e) => machinery_error(&format!("two-site state does not deserialise: {}", e)),
                            };
                            let (scored, fail, ov) = c01_judge(&st, &body, &p);
                            if scored {
                                out.scored += 1;
                                if ov.as_ref().map(|o| o.close_pairs > 0).unwrap_or(false) {
                                    out.nontrivial += 1;
                                }
                            }
                            if let Some((what, extra)) = fail {
                                out.fail_count += 1;
                                if out.fails.len() < 2 {
                                    out.fails.push((format!("{} {} with two occupied sites: {}", group, spec.label(), what), json!({"engine": "document", "lattice": "two sites", "group": group, "shape_label": spec.label(), "state": doc, "detail": extra})));
                                }
                            }
                        }
                    }
                }
                // the initial site of every group, shrinking the cell only (the optimiser's own first moves)
                let init = -0.5 + 0.5 / n as f64;
                for (ratio, angle) in cell_grid(group, tier) {
                    for &length in length_ladder(&body, n, ratio, angle, 0.995).iter() {
                        let p = Params { length, ratio, angle, x: init, y: init, phi: 0. };
                        c01_eval(&tpl, group, spec, &body, &p, &mut out, "initial site, shrinking cell");
                    }
                }
            }
        }
        out
    });
    let mut tot = C01Out::default();
    let mut per_lattice = [0u64; 4];
    for (i, o) in results.into_iter().enumerate() {
        tot.evals += o.evals;
        tot.scored += o.scored;
        tot.nontrivial += o.nontrivial;
        tot.skipped += o.skipped;
        tot.fail_count += o.fail_count;
        tot.far_image_cases += o.far_image_cases;
        per_lattice[jobs[i].2] += o.evals;
        for (w, c) in o.fails {
            run.fail(None, &w, c);
        }
    }
    // depth-2 histories on one thread: states of every shape at the edge of validity (the last
    // valid and the first overlapping length of a ladder, chosen by the oracle), every ordered
    // pair read and scored one after the other on a fresh thread
    let mut hist_docs: Vec<Value> = vec![];
    let mut hist_meta: Vec<(String, bool, f64)> = vec![];
    for spec in shapes.iter() {
        let body = spec.body();
        let sj = spec.json();
        for group in ["p2", "p2gg"].iter() {
            let tpl = StateTemplate::new(group, &sj);
            let n = ita_ops(group).len();
            for &(x, y, phi, ratio) in [(0.13, -0.37, 0.3217505543966422, 0.51), (-0.2856, 0.472, 5.364, 0.8), (0.4, 0.1, 2.5, 0.34)].iter() {
                let mut prev: Option<(Params, f64)> = None;
                for &length in length_ladder(&body, n, ratio, PI / 2., 0.97).iter() {
                    let p = Params { length, ratio, angle: PI / 2., x, y, phi };
                    let doc = tpl.with(&p);
                    let st = AnyState::from_json(&doc).unwrap_or_else(|e| machinery_error(&e));
                    let depth = match lattice_max_depth(&body, &st.cartesian(), &p.lattice(), 400, f64::INFINITY) {
                        Some(o) => o.depth,
                        None => break,
                    };
                    if depth > 1e-6 {
                        if let Some((pp, pd)) = prev.take() {
                            hist_docs.push(tpl.with(&pp));
                            hist_meta.push((format!("{} {} {}", group, spec.label(), pp.json()), false, pd));
                        }
                        hist_docs.push(doc);
                        hist_meta.push((format!("{} {} {}", group, spec.label(), p.json()), true, depth));
                        break;
                    }
                    if depth < -1e-6 {
                        prev = Some((p, depth));
                    }
                }
            }
        }
    }
    let hist_alone = scores_alone(&hist_docs);
    for (k, s) in hist_alone.iter().enumerate() {
        if s.is_some() && hist_meta[k].1 {
            run.fail(None, &format!("{}: score {:?} reported although images overlap by {:e}", hist_meta[k].0, s, hist_meta[k].2), json!({"engine": "document", "state": hist_docs[k]}));
        }
    }
    let (hist_pairs, hist_bad) = ordered_pair_histories(&hist_docs);
    for (k, m) in hist_bad.iter().enumerate() {
        if k >= 4 {
            break;
        }
        run.fail(
            None,
            &format!("{} (deepest overlap {:e}): scores {:?} on a thread of its own but {:?} right after {} was scored on the same thread", hist_meta[m.second].0, hist_meta[m.second].2, m.alone, m.after, hist_meta[m.first].0),
            json!({"engine": "document-pair", "first": hist_docs[m.first], "second": hist_docs[m.second]}),
        );
    }
    run.set("edge_of_validity_states", hist_docs.len() as u64);
    run.set("ordered_state_pairs_scored_on_one_thread", hist_pairs);
    run.set("ordered_state_pairs_with_a_different_score", hist_bad.len() as u64);
    // regression corpus: counterexamples found earlier, with neighbours
    let corpus = corpus_states("C01");
    let mut corpus_n = 0u64;
    for c in corpus.iter() {
        let spec_json = &c["shape"];
        let body = body_from_json(spec_json);
        let group = c["group"].as_str().unwrap();
        let tpl = StateTemplate::new(group, spec_json);
        let p0 = Params::from_json(&c["params"]);
        for dl in [-1e-3, 0., 1e-3].iter() {
            for dx in [-1e-3, 0., 1e-3].iter() {
                let p = Params { length: p0.length * (1. + dl), x: wrap_half(p0.x + dx), ..p0.clone() };
                corpus_n += 1;
                let st = AnyState::from_json(&tpl.with(&p)).unwrap_or_else(|e| machinery_error(&e));
                let (_, fail, _) = c01_judge(&st, &body, &p);
                if let Some((what, extra)) = fail {
                    run.fail(None, &format!("corpus {}: {}", group, what), json!({"engine": "state", "lattice": "corpus", "group": group, "shape": spec_json, "params": p.json(), "detail": extra}));
                }
            }
        }
    }
    // every state the optimiser reaches (accepted or merely proposed) in a chained-stage search
    let sweep_cfg = crate::rsx::Sweep {
        depth: tier.pick(3, 5),
        cap: tier.pick(1500, 60_000),
        dense_steps: 400,
        shapes: crate::rsx::start_shapes(tier).into_iter().filter(|s| !s.is_lj()).collect(),
    };
    let (rf, rstarts) = crate::rsx::sweep(&sweep_cfg, &crate::rsx::Wants { c01: true, c04: false, c05: false, c08: false, c19: false });
    for (w, c) in rf.c01 {
        run.fail(None, &w, c);
    }
    run.set("search_start_states", rstarts);
    run.set("search_states", rf.states);
    run.set("search_stage_executions", rf.transitions);
    run.set("search_scored_proposals_judged", rf.scored_proposals);
    run.set("search_scored_proposals_with_images_within_2R", rf.c01_nontrivial);
    run.set("search_depth", rf.max_depth as u64);
    run.set("search_cap_hit", rf.cap_hit);
    run.set("states", tot.scored + rf.states);
    run.set("transitions", tot.evals + rf.transitions);
    run.set("traces_validated_against_impl", tot.evals + rf.transitions);
    run.set("evaluations", tot.evals + corpus_n);
    run.set("distinct_nontrivial", tot.nontrivial);
    run.set("states_scored_by_the_crate", tot.scored);
    run.set("scored_states_with_images_within_2R", tot.nontrivial);
    run.set("oracle_skipped_cell_too_small", tot.skipped);
    run.set("lattice_generic_grid", per_lattice[1]);
    run.set("lattice_displacement_directed", per_lattice[2]);
    run.set("lattice_special_positions", per_lattice[3]);
    run.set("corpus_states", corpus_n);
    run.set("violating_states", tot.fail_count);
    run.set("violations_through_images_beyond_first_shell", tot.far_image_cases);
    run.set("exhaustive", true);
    run.set("rule", "three finite lattices of real states per (7 groups x 13 shapes): (1) generic grid of cell ratio x angle (around the old heuristic's thresholds) x site coordinates dense near 0, +-1/4, +-1/2 x orientations x a geometric length ladder from dilute to denser than physically possible; (2) displacement-directed: for every pair of copies the site is solved so that the pair sits at a chosen Cartesian displacement |v| < 2R modulo the lattice, the wrap deciding which image realises it; (3) special positions reached by bound clamping and the initial site under pure cell shrinking. Every state goes through the crate's deserialiser and score(); every scored state is judged by a brute-force search over all images within 2R (separating-axis / disc-distance depth > 1e-9). Non-trivial = scored states in which at least one pair of distinct images lies within 2R.");
    run.set("explanation", "states = lattice states the crate scored plus distinct states of the chained-stage search; transitions = lattice states evaluated plus real optimiser stages executed. The search (engine rsx) starts from the initial and a dense state of every group x hard shape, takes 35 scripted actions per state to the reported depth, and applies the same all-images oracle to every state the optimiser scores on the way, accepted or merely proposed.");
    run.sample(json!({"group": "p2", "shape": "trimer(0.637556,120,1)", "params": {"length": 5.6286, "ratio": 0.51, "angle": PI / 2., "x": -0.2856, "y": 0.472, "phi": 5.364}, "note": "copies 0 and 1 overlap through image (-1,2)"}));
    run.require(tot.scored > 1000 && tot.nontrivial > 1000, "too few scored / non-trivial states");
    run.finish()
}

pub fn corpus_states(prop: &str) -> Vec<Value> {
    let dir = format!("{}/corpus/{}", VERIF_DIR, prop);
    let mut v = vec![];
    if let Ok(rd) = std::fs::read_dir(&dir) {
        let mut paths: Vec<_> = rd.filter_map(|e| e.ok()).map(|e| e.path()).collect();
        paths.sort();
        for p in paths {
            if p.extension().map(|e| e == "json").unwrap_or(false) {
                let t = std::fs::read_to_string(&p).unwrap_or_default();
                match serde_json::from_str::<Value>(&t) {
                    Ok(Value::Array(a)) => v.extend(a),
                    Ok(x) => v.push(x),
                    Err(e) => machinery_error(&format!("corpus file {}: {}", p.display(), e)),
                }
            }
        }
    }
    v
}

pub fn replay_state(prop: &str, case: &Value) -> ! {
    let group = case["group"].as_str().unwrap();
    let shape = &case["shape"];
    let p = Params::from_json(&case["params"]);
    let doc = state_json(group, shape, &p);
    let st = AnyState::from_json(&doc).unwrap_or_else(|e| machinery_error(&e));
    println!("group {} params {}", group, p.json());
    println!("score(): {:?}", st.score());
    let body = body_from_json(shape);
    match prop {
        "C03" => {
            println!("oracle: {:?}", lj_oracle(&st, shape, &p));
            if case.get("shifted_params").is_some() {
                let q = Params::from_json(&case["shifted_params"]);
                let st2 = AnyState::from_json(&state_json(group, shape, &q)).unwrap_or_else(|e| machinery_error(&e));
                println!("re-described with {}: score(): {:?}", q.json(), st2.score());
                println!("oracle: {:?}", lj_oracle(&st2, shape, &q));
            }
        }
        _ => {
            let o = lattice_max_depth(&body, &st.cartesian(), &p.lattice(), 400, f64::INFINITY);
            println!("full-lattice oracle: {:?}", o);
        }
    }
    std::process::exit(0)
}

// ------------------------------------------------------------------------------------------
// C03

#[derive(Debug, Clone)]
pub struct LjOracle {
    pub energy_per_molecule: f64,
    pub tail_bound: f64,
    pub pairs: usize,
    pub cutoff: Option<f64>,
    pub extent: f64,
    /// an interacting image pair lies beyond the third shell of cells around the wrapped copies
    pub interacting_beyond_third_shell: bool,
    /// an interacting image pair lies beyond the sixteenth shell (the crate's cap on the number
    /// of shells it sums, there to bound the time of one evaluation in degenerate cells)
    pub interacting_beyond_shell_cap: bool,
}

/// Independent lattice sum: every unordered pair of distinct molecule images once, out to the
/// cutoff (plus molecular extent) or to a radius where the r^-6 tail is negligible. Pair
/// energies come from the crate's own molecule-pair energy, symmetrised.
pub fn lj_oracle(st: &AnyState, shape: &Value, p: &Params) -> Option<LjOracle> {
    let s = match st {
        AnyState::Lj(s) => s,
        _ => return None,
    };
    let items = shape["items"].as_array()?;
    let mut cutoff: Option<f64> = Some(0.);
    let mut extent: f64 = 0.;
    let mut sig_max: f64 = 0.;
    let mut eps_max: f64 = 0.;
    for it in items {
        let pos = [it["position"][0].as_f64()?, it["position"][1].as_f64()?];
        extent = extent.max(norm(pos));
        sig_max = sig_max.max(it["sigma"].as_f64()?);
        eps_max = eps_max.max(it["epsilon"].as_f64()?);
        match (cutoff, it["cutoff"].as_f64()) {
            (Some(c), Some(x)) => cutoff = Some(c.max(x)),
            _ => cutoff = None,
        }
    }
    let lat = p.lattice();
    let placements: Vec<packing::Transform2> = s.cartesian_positions().collect();
    let centres: Vec<P2> = placements.iter().map(|t| Aff::from_t2(t).t).collect();
    let n = placements.len();
    let reach = match cutoff {
        Some(c) => c + 2. * extent + 1e-9,
        // uncut: sum out to where the tail beyond is below 1e-10 per molecule
        None => 60. * sig_max.max(1.),
    };
    let mut dmax: f64 = 0.;
    for i in 0..n {
        for j in 0..n {
            dmax = dmax.max(norm(sub(centres[i], centres[j])));
        }
    }
    let (nmax, mmax) = lat.ranges(reach + dmax);
    if nmax > 2000 || mmax > 2000 || (nmax as i128 * mmax as i128) > 400_000 {
        return None;
    }
    // particles from the document (position, sigma, epsilon, cutoff), placed by the oracle's own
    // arithmetic: nothing of the crate's shape transform enters
    let parts: Vec<(P2, f64, f64, Option<f64>)> = items.iter().map(|it| ([it["position"][0].as_f64().unwrap_or(f64::NAN), it["position"][1].as_f64().unwrap_or(f64::NAN)], it["sigma"].as_f64().unwrap_or(f64::NAN), it["epsilon"].as_f64().unwrap_or(f64::NAN), it["cutoff"].as_f64())).collect();
    let affs: Vec<Aff> = placements.iter().map(Aff::from_t2).collect();
    let placed: Vec<Vec<P2>> = affs.iter().map(|a| parts.iter().map(|q| a.apply(q.0)).collect()).collect();
    let mut sum = 0.;
    let mut pairs = 0usize;
    let mut beyond = false;
    let mut beyond_cap = false;
    for nn in -nmax..=nmax {
        for mm in -mmax..=mmax {
            let l = lat.vec(nn, mm);
            for i in 0..n {
                for j in i..n {
                    if i == j && !(nn > 0 || (nn == 0 && mm > 0)) {
                        continue;
                    }
                    let dc = norm(sub(add(centres[j], l), centres[i]));
                    if dc > reach {
                        continue;
                    }
                    // like particles: the 12-6 law in closed form (independent of the crate and
                    // of anything it may remember between calls); unlike particles: the crate's
                    // own pair energy on freshly built particles, symmetrised (the property fixes
                    // no mixing rule)
                    let mut e = 0.;
                    for (ka, a) in parts.iter().enumerate() {
                        for (kb, b) in parts.iter().enumerate() {
                            let pa = placed[i][ka];
                            let pb = add(placed[j][kb], l);
                            if a.1 == b.1 && a.2 == b.2 && a.3 == b.3 {
                                e += lj_closed_form(a.1, a.2, a.3, norm(sub(pa, pb)));
                            } else {
                                let x = packing::LJ2 { position: nalgebra::Point2::new(pa[0], pa[1]), sigma: a.1, epsilon: a.2, cutoff: a.3 };
                                let y = packing::LJ2 { position: nalgebra::Point2::new(pb[0], pb[1]), sigma: b.1, epsilon: b.2, cutoff: b.3 };
                                e += 0.5 * (x.energy(&y) + y.energy(&x));
                            }
                        }
                    }
                    sum += e;
                    pairs += 1;
                    if e != 0. && (nn.abs() > 3 || mm.abs() > 3) {
                        beyond = true;
                    }
                    if e != 0. && (nn.abs() > 16 || mm.abs() > 16) {
                        beyond_cap = true;
                    }
                }
            }
        }
    }
    // tail of the uncut sum beyond `reach`: density * integral of 4 eps (sigma/r)^6 2 pi r dr
    let tail = match cutoff {
        Some(_) => 0.,
        None => {
            let density = n as f64 / lat.area();
            let k = items.len() as f64;
            0.5 * density * k * k * 4. * eps_max * sig_max.powi(6) * 2. * PI / (4. * (reach - dmax - 2. * extent).powi(4))
        }
    };
    Some(LjOracle { energy_per_molecule: sum / n as f64, tail_bound: tail, pairs, cutoff, extent, interacting_beyond_third_shell: beyond, interacting_beyond_shell_cap: beyond_cap })
}

pub fn c03_shapes() -> Vec<ShapeSpec> {
    vec![
        ShapeSpec::LjCircle,
        ShapeSpec::LjTrimer(0.637556, 120., 1.),
        ShapeSpec::LjTrimer(0.7, 180., 1.5),
        ShapeSpec::LjTrimer(1., 180., 2.),
        ShapeSpec::LjTrimer(0.5, 60., 1.2),
        // particles whose well depth is not 1: alone, and next to an equally sized unit one
        // (a wide trimer: sigma 4 of the outer particles exceeds their cutoff 3.5)
        ShapeSpec::LjTrimer(2., 120., 1.),
        ShapeSpec::LjCustom("disc-eps3".into(), vec![(0., 0., 1., 3., Some(2.5))]),
        ShapeSpec::LjCustom("dumbbell-eps1-4".into(), vec![(-0.5, 0., 1., 1., Some(2.5)), (0.5, 0., 1., 4., Some(2.5))]),
    ]
}

/// Variants of an LJ molecule that differ in one particle parameter only (scored between two
/// evaluations of a state to expose anything the crate carries over from one call to the next).
pub fn lj_decoys(shape: &Value) -> Vec<Value> {
    let mut out = vec![];
    for (field, factor) in [("epsilon", 3.), ("epsilon", 1. / 3.), ("cutoff", 1.25), ("sigma", 1.1)].iter() {
        let mut v = shape.clone();
        let mut changed = false;
        for it in v["items"].as_array_mut().unwrap().iter_mut() {
            if let Some(x) = it[*field].as_f64() {
                it[*field] = json!(x * factor);
                changed = true;
            }
        }
        if changed {
            out.push(v);
        }
    }
    out
}

/// Convergence error the property allows an uncut potential: the r^-6 tail beyond the distance
/// that three shells of cells are guaranteed to cover (twice the cell height).
pub fn truncation_allowance(cutoff: Option<f64>, n_copies: usize, shape: &Value, p: &Params) -> f64 {
    match cutoff {
        Some(_) => 0.,
        None => {
            let h = p.length.min(p.length * p.ratio) * p.angle.sin();
            let r0 = (2. * h).max(1e-3);
            let density = n_copies as f64 / p.lattice().area();
            let items = shape["items"].as_array().unwrap();
            let k = items.len() as f64;
            let sig = items.iter().map(|i| i["sigma"].as_f64().unwrap()).fold(0., f64::max);
            let eps = items.iter().map(|i| i["epsilon"].as_f64().unwrap()).fold(0., f64::max);
            // (both terms of the 12-6 law: in a compressed or very flat cell the first images left
            // out lie inside the repulsive core, where the r^-12 term is the larger one)
            0.5 * density * k * k * 4. * eps * 2. * PI * (sig.powi(6) / (4. * r0.powi(4)) + sig.powi(12) / (10. * r0.powi(10))) * 1.5
        }
    }
}

/// Known-finding predicates of the LJ sum, decided from the input alone (which image pairs of
/// this state interact): a cut potential whose interacting pairs reach beyond the sixteen shells
/// the crate sums at most (open), or beyond the three it used to sum (repaired, kept so that a
/// regression is named).
pub fn lj_key(o: &Option<LjOracle>) -> Option<&'static str> {
    match o {
        Some(v) if v.cutoff.is_some() && v.interacting_beyond_shell_cap => Some("lj-cut-pair-beyond-sixteenth-shell"),
        Some(v) if v.cutoff.is_some() && v.interacting_beyond_third_shell => Some("lj-interacting-pair-beyond-third-shell"),
        _ => None,
    }
}

/// The key of a comparison between two descriptions: the open one if either has it.
pub fn lj_key2(a: &Option<LjOracle>, b: &Option<LjOracle>) -> Option<&'static str> {
    let (ka, kb) = (lj_key(a), lj_key(b));
    if ka == Some("lj-cut-pair-beyond-sixteenth-shell") || kb == Some("lj-cut-pair-beyond-sixteenth-shell") {
        Some("lj-cut-pair-beyond-sixteenth-shell")
    } else {
        ka.or(kb)
    }
}

pub fn c03_judge(st: &AnyState, shape: &Value, p: &Params) -> (Option<LjOracle>, Option<(Option<&'static str>, String)>) {
    let score = st.score();
    let o = match lj_oracle(st, shape, p) {
        Some(o) => o,
        None => return (None, None),
    };
    let want = -o.energy_per_molecule;
    // known-finding predicate: for a cut potential, some interacting pair of images lies outside
    // the three shells of cells the crate sums over
    let key = lj_key(&Some(o.clone()));
    // uncut potential: the crate truncates at three shells; the property allows the
    // convergence error of the truncated sum, bounded here by the r^-6 tail beyond the
    // distance three shells are guaranteed to cover
    let trunc_allow = truncation_allowance(o.cutoff, st.total_shapes(), shape, p);
    if !(want.abs() < 1e9) {
        // singular configuration (particles on top of each other): only the verdict "invalid or
        // astronomically bad" is meaningful
        return match score {
            None => (Some(o), None),
            Some(s) if s < -1e8 => (Some(o), None),
            Some(s) => {
                let e = o.energy_per_molecule;
                (Some(o), Some((key, format!("score {} for a state whose particles (nearly) coincide (lattice energy per molecule {:e})", s, e))))
            }
        };
    }
    match score {
        None => (Some(o), Some((None, "a Lennard-Jones state with separated particles has no score".to_string()))),
        Some(s) => {
            let tol = 1e-9 * want.abs().max(1.) + o.tail_bound + trunc_allow;
            if !((s - want).abs() <= tol) {
                let what = format!("score {} but minus the lattice energy per molecule is {} (each image pair once, {} pairs, tolerance {:e})", s, want, o.pairs, tol);
                (Some(o), Some((key, what)))
            } else {
                (Some(o), None)
            }
        }
    }
}

pub fn c03(tier: Tier) -> ! {
    let mut run = Run::new("C03", tier, "exploration");
    let shapes = c03_shapes();
    let mut jobs = vec![];
    for g in GROUP_NAMES.iter() {
        for s in shapes.iter() {
            jobs.push((g.to_string(), s.clone()));
        }
    }
    let results = par_map(&jobs, |_, (group, spec)| {
        let sj = spec.json();
        let body = spec.body();
        let tpl = StateTemplate::new(group, &sj);
        let n = ita_ops(group).len();
        let r = body.enclosing_radius();
        let ratios = tier.pick(vec![1., 0.7, 0.4], vec![1., 0.85, 0.7, 0.55, 0.4]);
        let angles: Vec<f64> = if ita_family(group) == "Monoclinic" { tier.pick(vec![PI / 2., 1.2, 2.1, PI / 2. - 5e-4], vec![PI / 2., 1.2, PI / 3., 2.1, 2.5, PI / 2. - 5e-4, PI / 2. + 2e-5]) } else { vec![PI / 2.] };
        let xs = tier.pick(vec![-0.4, -0.25, 0.1, 0.37, 0.5], vec![-0.5, -0.4, -0.25, -0.1, 0., 0.1, 0.2, 0.37, 0.49, 0.5]);
        let phis = tier.pick(vec![0., 0.3, 2.5], vec![0., 0.3, 1.2, 2.5, 4., 5.9]);
        let mut evals = 0u64;
        let mut redesc = 0u64;
        let mut nontrivial = 0u64;
        let mut rescored = 0u64;
        let mut fails: Vec<(Option<&'static str>, String, Value)> = vec![];
        let mut fail_count = 0u64;
        let decoy_tpls: Vec<StateTemplate> = lj_decoys(&sj).iter().map(|d| StateTemplate::new(group, d)).collect();
        let mono_free = *group == "p1" || *group == "p2";
        for &ratio in ratios.iter() {
            for &angle in angles.iter() {
                // from dilute (2R n) down to compressed
                let top = 2.2 * r * n as f64;
                let mut lengths = vec![];
                let mut l = top;
                while l > 0.45 * top / (n as f64).sqrt().max(1.) && lengths.len() < tier.pick(5, 9) {
                    lengths.push(l);
                    l *= tier.pick(0.8, 0.88);
                }
                for &length in lengths.iter() {
                    for &x in xs.iter() {
                        for &y in xs.iter() {
                            for &phi in phis.iter() {
                                let p = Params { length, ratio, angle, x, y, phi };
                                let st = AnyState::from_json(&tpl.with(&p)).unwrap_or_else(|e| machinery_error(&e));
                                evals += 1;
                                let (o, fail) = c03_judge(&st, &sj, &p);
                                if let Some(o) = &o {
                                    if o.pairs > 0 {
                                        nontrivial += 1;
                                    }
                                }
                                let base_score = st.score();
                                if let Some((key, what)) = fail {
                                    fail_count += 1;
                                    if fails.len() < 2 {
                                        fails.push((key, format!("{} {}: {}", group, spec.label(), what), json!({"engine": "state", "group": group, "shape": sj, "shape_label": spec.label(), "params": p.json()})));
                                    }
                                }
                                // the score of a state does not depend on what was scored before
                                // it: decoys differ in one particle parameter only
                                if phi == phis[0] {
                                    for dt in decoy_tpls.iter() {
                                        let decoy = AnyState::from_json(&dt.with(&p)).unwrap_or_else(|e| machinery_error(&e));
                                        let _ = decoy.score();
                                        let again = st.score();
                                        rescored += 1;
                                        if again.map(f64::to_bits) != base_score.map(f64::to_bits) {
                                            fail_count += 1;
                                            if fails.len() < 6 {
                                                fails.push((None, format!("{} {}: the state scores {:?}, and {:?} after a state of different particles was scored", group, spec.label(), base_score, again), json!({"engine": "state", "group": group, "shape": sj, "shape_label": spec.label(), "params": p.json()})));
                                            }
                                            break;
                                        }
                                    }
                                }
                                // the same crystal in another cell: second cell vector B -> B - A
                                // (often an obtuse cell) and B -> B + A; the operations of p1 and p2
                                // keep their form in any basis
                                if mono_free {
                                    for &sgn in [-1f64, 1.].iter() {
                                        let (a, b) = (length, length * ratio);
                                        let bx = b * angle.cos() + sgn * a;
                                        let by = b * angle.sin();
                                        let b2 = (bx * bx + by * by).sqrt();
                                        let q = Params { length, ratio: b2 / a, angle: by.atan2(bx), x: wrap_half(x - sgn * y), y, phi };
                                        let st2 = AnyState::from_json(&tpl.with(&q)).unwrap_or_else(|e| machinery_error(&e));
                                        redesc += 1;
                                        let s2 = st2.score();
                                        let singular = |s: Option<f64>| s.map(|v| v < -1e9).unwrap_or(true);
                                        let cut = o.as_ref().and_then(|v| v.cutoff);
                                        let allow = truncation_allowance(cut, n, &sj, &p) + truncation_allowance(cut, n, &sj, &q);
                                        let same = match (base_score, s2) {
                                            (Some(u), Some(v)) => (u - v).abs() <= 1e-9 * u.abs().max(v.abs()).max(1.) + allow || (singular(Some(u)) && singular(Some(v))),
                                            (u, v) => singular(u) && singular(v),
                                        };
                                        if !same {
                                            fail_count += 1;
                                            let o2 = lj_oracle(&st2, &sj, &q);
                                            let rkey = lj_key2(&o, &o2);
                                            if fails.len() < 2 || rkey.is_none() && fails.len() < 6 {
                                                fails.push((rkey, format!("{} {}: the same crystal described in the cell (A, B{}A) (ratio {}, angle {}) scores {:?} instead of {:?}", group, spec.label(), if sgn < 0. { "-" } else { "+" }, q.ratio, q.angle, s2, base_score), json!({"engine": "state", "group": group, "shape": sj, "shape_label": spec.label(), "params": p.json(), "shifted_params": q.json()})));
                                            }
                                        }
                                    }
                                }
                                // re-descriptions of the same crystal: a copy moved across a face,
                                // the origin shifted by half a lattice vector
                                let shifts: Vec<(f64, f64)> = vec![(1., 0.), (0., -1.), (0.5, 0.), (0., 0.5), (0.5, 0.5), (3., 0.), (-4., 3.)];
                                for (dx, dy) in shifts {
                                    // a site shift by a half lattice vector re-describes the same
                                    // crystal iff it commutes with every operation modulo the
                                    // lattice: (W - I) d must be integral
                                    let ok = ita_ops(group).iter().all(|op| {
                                        let ex = (op.w[0][0] as f64 - 1.) * dx + op.w[0][1] as f64 * dy;
                                        let ey = op.w[1][0] as f64 * dx + (op.w[1][1] as f64 - 1.) * dy;
                                        dist_to_int(ex) < 1e-12 && dist_to_int(ey) < 1e-12
                                    });
                                    if !ok {
                                        continue;
                                    }
                                    let q = Params { x: x + dx, y: y + dy, ..p.clone() };
                                    let st2 = AnyState::from_json(&tpl.with(&q)).unwrap_or_else(|e| machinery_error(&e));
                                    redesc += 1;
                                    let s2 = st2.score();
                                    // coinciding or nearly coinciding particles: the energy is
                                    // singular, "no score" and "astronomically bad" agree
                                    let singular = |s: Option<f64>| s.map(|v| v < -1e9).unwrap_or(true);
                                    let allow = 2. * truncation_allowance(o.as_ref().and_then(|v| v.cutoff), n, &sj, &p);
                                    let same = match (base_score, s2) {
                                        (Some(a), Some(b)) => (a - b).abs() <= 1e-9 * a.abs().max(b.abs()).max(1.) + allow || (singular(Some(a)) && singular(Some(b))),
                                        (a, b) => singular(a) && singular(b),
                                    };
                                    if !same {
                                        fail_count += 1;
                                        // the two descriptions may lose different far pairs to the
                                        // three-shell truncation (known finding, same predicate)
                                        let o2 = lj_oracle(&st2, &sj, &q);
                                        let rkey = lj_key2(&o, &o2);
                                        if fails.len() < 2 || rkey.is_none() && fails.len() < 6 {
                                            fails.push((rkey, format!("{} {}: the same crystal described with the site shifted by ({}, {}) scores {:?} instead of {:?}", group, spec.label(), dx, dy, s2, base_score), json!({"engine": "state", "group": group, "shape": sj, "shape_label": spec.label(), "params": p.json(), "shifted_params": q.json()})));
                                        }
                                    }
                                }
                            }
                        }
                    }
                }
            }
        }
        // large, strongly oblique cells with the molecules near the acute corners: the closest
        // contact runs through the lattice vector A + B (or A - B)
        if mono_free {
            for &angle in [0.6, 0.8, 2.4].iter() {
                for &length in [3. * r, 5. * r, 9. * r].iter() {
                    for &(x, y) in [(0.44, 0.44), (-0.45, -0.45), (0.48, 0.4), (0.45, -0.44)].iter() {
                        for &phi in phis.iter().take(2) {
                            let p = Params { length, ratio: 1., angle, x, y, phi };
                            let st = AnyState::from_json(&tpl.with(&p)).unwrap_or_else(|e| machinery_error(&e));
                            evals += 1;
                            let (o, fail) = c03_judge(&st, &sj, &p);
                            if o.map(|v| v.pairs > 0).unwrap_or(false) {
                                nontrivial += 1;
                            }
                            if let Some((key, what)) = fail {
                                fail_count += 1;
                                if fails.len() < 4 {
                                    fails.push((key, format!("{} {} (molecules near the acute corners of an oblique cell): {}", group, spec.label(), what), json!({"engine": "state", "group": group, "shape": sj, "shape_label": spec.label(), "params": p.json()})));
                                }
                            }
                        }
                    }
                }
            }
        }
        // states with two occupied sites (a second general site; a site of multiplicity one):
        // the normalisation is per molecule, whatever the sites' multiplicities
        let ident = wyckoff_json("p1");
        let general = wyckoff_json(group);
        for &ratio in ratios.iter().take(2) {
            for (wi, w) in [&general, &ident].iter().enumerate() {
                for &length in [3.2 * r * n as f64, 2.4 * r * n as f64].iter() {
                    for &(x, y, phi) in [(0.11, -0.2, 0.3), (-0.4, 0.33, 2.2)].iter() {
                        let p = Params { length, ratio, angle: angles[0], x, y, phi };
                        let doc = with_second_site(&tpl.with(&p), w, wrap_half(x + 0.37), wrap_half(y - 0.29), phi + 1.);
                        let st = match AnyState::from_json(&doc) {
                            Ok(s) => s,
                            Err(e) => machinery_error(&e),
                        };
                        evals += 1;
                        let (o, fail) = c03_judge(&st, &sj, &p);
                        if o.map(|v| v.pairs > 0).unwrap_or(false) {
                            nontrivial += 1;
                        }
                        if let Some((key, what)) = fail {
                            fail_count += 1;
                            if fails.len() < 4 {
                                fails.push((key, format!("{} {} with two occupied sites ({}): {}", group, spec.label(), if wi == 0 { "two general sites" } else { "general site and a site of multiplicity one" }, what), json!({"engine": "document", "group": group, "shape_label": spec.label(), "state": doc})));
                            }
                        }
                    }
                }
            }
        }
        (evals, redesc, nontrivial, fail_count, fails, rescored)
    });
    let (mut evals, mut redesc, mut nontrivial, mut fc) = (0u64, 0u64, 0u64, 0u64);
    let mut rescored = 0u64;
    for (e, r, n, f, fails, rs) in results {
        rescored += rs;
        evals += e;
        redesc += r;
        nontrivial += n;
        fc += f;
        for (k, w, c) in fails {
            run.fail(k, &w, c);
        }
    }
    // the states' own ordering (what the CLI's max() uses) follows the score, across zero as well
    let mut order_checks = 0u64;
    for spec in [ShapeSpec::LjCircle, ShapeSpec::LjTrimer(0.637556, 120., 1.)].iter() {
        let sj = spec.json();
        let r = spec.body().enclosing_radius();
        let mut pool: Vec<(packing::PotentialState<packing::LJShape2>, f64, String)> = vec![];
        for g in ["p1", "p2", "p2gg"].iter() {
            let tpl = StateTemplate::new(g, &sj);
            let n = ita_ops(g).len() as f64;
            for &f in [3.5, 2.4, 2.0, 1.7, 1.5].iter() {
                let p = Params { length: f * r * n.sqrt(), ratio: 0.9, angle: PI / 2., x: 0.21, y: 0.13, phi: 0.7 };
                if let Ok(AnyState::Lj(st)) = AnyState::from_json(&tpl.with(&p)) {
                    if let Some(sc) = st.score() {
                        if sc.is_finite() {
                            pool.push((st, sc, format!("{} length factor {}", g, f)));
                        }
                    }
                }
            }
        }
        let (neg, pos) = (pool.iter().filter(|x| x.1 < 0.).count(), pool.iter().filter(|x| x.1 > 0.).count());
        run.require(neg > 0 && pos > 0, "ordering pool needs scores on both sides of zero");
        for (a, sa, la) in pool.iter() {
            for (b, sb, lb) in pool.iter() {
                if sa == sb {
                    continue;
                }
                order_checks += 1;
                let want = sa.partial_cmp(sb);
                if a.partial_cmp(b) != want || Some(a.cmp(b)) != want || (std::cmp::max(a.clone(), b.clone()).score() != Some(sa.max(*sb))) {
                    run.fail(None, &format!("{}: states scoring {} and {} are ordered {:?} (max picks {:?})", spec.label(), sa, sb, a.partial_cmp(b), std::cmp::max(a.clone(), b.clone()).score()), json!({"shape": spec.label(), "a": la, "b": lb}));
                }
            }
        }
    }
    run.set("ordering_comparisons", order_checks);
    run.set("evaluations", evals + redesc + order_checks);
    run.set("distinct_nontrivial", nontrivial);
    run.set("states_compared_with_lattice_sum", evals);
    run.set("redescriptions_compared", redesc);
    run.set("rescored_after_a_decoy_state", rescored);
    run.set("failing_cases", fc);
    run.set("exhaustive", true);
    run.set("rule", "complete product: 7 groups x 5 LJ shapes (uncut circle, 4 cut trimers) x cell ratio x angle x a length ladder from dilute to compressed x site grid x orientations; each state's score is compared with an independent lattice sum (every unordered pair of distinct molecule images once, out to cutoff + molecular extent or, uncut, to 60 sigma with an explicit tail bound), and with the score of every re-description of the same crystal (site shifted by a lattice vector or by a half lattice vector that commutes with the group). Non-trivial = states with at least one interacting image pair");
    run.assume("pair energies are taken from the crate's own molecule-pair energy (symmetrised), so this check judges weights, range and normalisation only; the pair law is C13's subject");
    run.sample(json!({"group": "p2", "shape": "lj-trimer(0.637556,120,1)", "params": {"length": 6., "ratio": 0.8, "angle": PI / 2., "x": 0.2, "y": 0.1, "phi": 0.3}}));
    run.require(nontrivial > 500, "too few interacting states");
    run.finish()
}

// ------------------------------------------------------------------------------------------
// C04

/// Symmetry judge on one real state: every operation of the group (independent table), in
/// Cartesian space, is a rigid motion or reflection of this cell and maps the placed point set
/// onto itself up to lattice translations.
pub fn c04_judge(group: &str, placements: &[Aff], probe_pts: &[P2], p: &Params) -> Option<String> {
    let ops = ita_ops(group);
    let lat = p.lattice();
    if placements.len() != ops.len() {
        return Some(format!("{} placements for a group of order {}", placements.len(), ops.len()));
    }
    // placed point sets
    let sets: Vec<Vec<P2>> = placements.iter().map(|a| probe_pts.iter().map(|q| a.apply(*q)).collect()).collect();
    c04_judge_sets(group, &sets, p)
}

/// The same judge on point sets placed by the crate's own shape transform.
pub fn c04_judge_sets(group: &str, sets: &[Vec<P2>], p: &Params) -> Option<String> {
    c04_judge_sets_n(group, sets, p, ita_ops(group).len())
}

/// `expected`: the number of copies in the cell (the sum of the occupied sites' multiplicities).
pub fn c04_judge_sets_n(group: &str, sets: &[Vec<P2>], p: &Params, expected: usize) -> Option<String> {
    let ops = ita_ops(group);
    let lat = p.lattice();
    if sets.len() != expected {
        return Some(format!("{} placed copies where the occupied sites hold {}", sets.len(), expected));
    }
    let scale = lat.a[0].abs().max(norm(lat.b)).max(1.);
    for (oi, op) in ops.iter().enumerate() {
        // Cartesian operation: x -> M W M^-1 x + M w
        let g_lin = |v: P2| lat.cart(op.as_aff().lin(lat.frac(v)));
        let g_t = lat.cart(op.as_aff().t);
        let c0 = g_lin([1., 0.]);
        let c1 = g_lin([0., 1.]);
        let err = (dot(c0, c0) - 1.).abs().max((dot(c1, c1) - 1.).abs()).max(dot(c0, c1).abs());
        if err > 1e-9 {
            return Some(format!("operation {} of {} is not a rigid motion or reflection of this cell (|GtG - I| = {:e})", oi, group, err));
        }
        for (k, set) in sets.iter().enumerate() {
            let image: Vec<P2> = set.iter().map(|q| add(g_lin(*q), g_t)).collect();
            // must coincide with some placed copy up to one lattice vector (ordered comparison:
            // point q of the probe shape must land on point q of the matching copy only as a set)
            let mut matched = false;
            for other in sets.iter() {
                // candidate lattice shift from the first point against every point of `other`
                for cand in other.iter() {
                    let d = lat.frac(sub(image[0], *cand));
                    let shift = lat.cart([d[0].round(), d[1].round()]);
                    if (d[0] - d[0].round()).abs() > 1e-7 || (d[1] - d[1].round()).abs() > 1e-7 {
                        continue;
                    }
                    let all = image.iter().all(|q| other.iter().any(|o| norm(sub(sub(*q, shift), *o)) <= 1e-9 * scale));
                    if all {
                        matched = true;
                        break;
                    }
                }
                if matched {
                    break;
                }
            }
            if !matched {
                return Some(format!("operation {} of {} maps copy {} onto no placed copy (up to lattice translations)", oi, group, k));
            }
        }
    }
    None
}

pub fn c04(tier: Tier) -> ! {
    let mut run = Run::new("C04", tier, "model_checking");
    // asymmetric probe shapes so that orientation and handedness are observable
    let hard = ShapeSpec::Radial(vec![1., 0.6, 0.8, 0.5, 0.9]);
    let lj = {
        // a trimer with unequal arms, through JSON
        let mut v = ShapeSpec::LjTrimer(0.637556, 100., 1.).json();
        v["items"][1]["position"] = json!([-0.9, 0.3]);
        v["items"][2]["position"] = json!([0.6, 0.45]);
        v["items"][2]["sigma"] = json!(0.9);
        v
    };
    let mol = {
        // a hard trimer with unequal arms and radii, through JSON
        let mut v = ShapeSpec::Trimer(0.637556, 100., 1.).json();
        v["items"][1]["position"] = json!([-0.9, 0.3]);
        v["items"][2]["position"] = json!([0.6, 0.45]);
        v["items"][2]["radius"] = json!(0.45);
        v
    };
    let shuffled = {
        // the same scalene pentagon with its closed outline listed out of order
        let mut v = hard.json();
        let items = v["items"].as_array_mut().unwrap();
        items.swap(1, 3);
        items.swap(0, 2);
        v
    };
    let probes: Vec<(&str, Value)> = vec![("hard", hard.json()), ("lj", lj), ("mol", mol), ("outline", shuffled)];
    let mut jobs = vec![];
    for g in GROUP_NAMES.iter() {
        for (kind, sj) in probes.iter() {
            jobs.push((g.to_string(), kind.to_string(), sj.clone()));
        }
    }
    let results = par_map(&jobs, |_, (group, kind, sj)| {
        let tpl = StateTemplate::new(group, sj);
        let pts = body_from_json(sj).points();
        let mono = ita_family(group) == "Monoclinic";
        let lengths = [0.5, 3., 40.];
        let ratios = [1., 0.73, 0.34, 0.1];
        let angles: Vec<f64> = if mono { vec![PI / 2., 1.3, PI / 3., PI / 6., 2.1] } else { vec![PI / 2.] };
        let xs: Vec<f64> = tier.pick(vec![-0.5, -0.3, -0.25, 0., 0.1, 0.25, 0.41, 0.5], vec![-0.5, -0.45, -0.3, -0.25, -0.1, 0., 0.1, 0.2, 0.25, 0.33, 0.41, 0.49, 0.5]);
        let phis: Vec<f64> = tier.pick(vec![0., 0.4, PI / 2., 2.2, PI, 4.4, 2. * PI], vec![0., 0.4, 1., PI / 2., 2.2, PI, 3.7, 4.4, 5.5, 2. * PI]);
        let mut evals = 0u64;
        let mut fails: Vec<(String, Value)> = vec![];
        let mut fc = 0u64;
        for &length in lengths.iter() {
            for &ratio in ratios.iter() {
                for &angle in angles.iter() {
                    for &x in xs.iter() {
                        for &y in xs.iter() {
                            for &phi in phis.iter() {
                                let p = Params { length, ratio, angle, x, y, phi };
                                let st = AnyState::from_json(&tpl.with(&p)).unwrap_or_else(|e| machinery_error(&e));
                                evals += 1;
                                // "mol": the copies as the crate's own shape transform places them
                                let verdict = if kind == "mol" || kind == "outline" { c04_judge_sets(group, &st.placed_points(), &p) } else { c04_judge(group, &st.cartesian(), &pts, &p) };
                                if let Some(what) = verdict {
                                    fc += 1;
                                    if fails.len() < 2 {
                                        fails.push((format!("{} ({}): {}", group, kind, what), json!({"engine": "state", "group": group, "shape": sj, "params": p.json()})));
                                    }
                                }
                            }
                        }
                    }
                }
            }
        }
        // states produced by the constructors: family and initial cell
        for spec in [ShapeSpec::Polygon(4), ShapeSpec::Trimer(0.637556, 120., 1.), ShapeSpec::LjTrimer(0.637556, 120., 1.), ShapeSpec::LjCircle].iter() {
            if (kind == "lj") != spec.is_lj() || kind == "mol" || kind == "outline" {
                continue;
            }
            let st = AnyState::from_group(group, spec);
            let doc = st.to_json();
            let p = params_of_json(&doc);
            evals += 1;
            let fam = doc["cell"]["family"].as_str().unwrap_or("").to_string();
            if fam != ita_family(group) {
                fc += 1;
                fails.push((format!("{}: built with cell family {} instead of {}", group, fam, ita_family(group)), json!({"group": group, "shape_label": spec.label()})));
            }
            if !mono && (p.angle - PI / 2.).abs() > 1e-12 {
                fc += 1;
                fails.push((format!("{}: rectangular group built with cell angle {}", group, p.angle), json!({"group": group, "shape_label": spec.label()})));
            }
            if let Some(what) = c04_judge(group, &st.cartesian(), &spec.body().points(), &p) {
                fc += 1;
                fails.push((format!("{} initial state: {}", group, what), json!({"group": group, "shape_label": spec.label()})));
            }
        }
        // two occupied sites, the one of multiplicity one listed first or second, and two general
        // sites: the crystal is the union of the sites' copies
        let ident = wyckoff_json("p1");
        let general = wyckoff_json(group);
        let n = ita_ops(group).len();
        for &(x, y, phi) in [(0.11, -0.2, 0.3), (-0.4, 0.33, 2.2)].iter() {
            let p = Params { length: 3., ratio: 0.73, angle: PI / 2., x, y, phi };
            let one = tpl.with(&p);
            let mut swapped = with_second_site(&one, &ident, 0.27, 0.4, 1.3);
            swapped["occupied_sites"].as_array_mut().unwrap().swap(0, 1);
            for (label, doc, expected) in [("general site first", with_second_site(&one, &ident, 0.27, 0.4, 1.3), n + 1), ("site of multiplicity one first", swapped, n + 1), ("two general sites", with_second_site(&one, &general, 0.27, 0.4, 1.3), 2 * n)].iter() {
                // (the site of multiplicity one is its own image only in p1: elsewhere such a
                // document is not a crystal of the group, only the copy count is judged)
                let st = AnyState::from_json(doc).unwrap_or_else(|e| machinery_error(&e));
                evals += 1;
                let sets = st.placed_points();
                let verdict = if *expected == 2 * n || *group == "p1" { c04_judge_sets_n(group, &sets, &p, *expected) } else if sets.len() != *expected { Some(format!("{} placed copies where the occupied sites hold {}", sets.len(), expected)) } else { None };
                if let Some(what) = verdict {
                    fc += 1;
                    if fails.len() < 4 {
                        fails.push((format!("{} ({}) with two occupied sites ({}): {}", group, kind, label, what), json!({"engine": "document", "group": group, "state": doc})));
                    }
                }
            }
        }
        (evals, fc, fails)
    });
    let (mut evals, mut fc) = (0u64, 0u64);
    for (e, f, fails) in results {
        evals += e;
        fc += f;
        for (w, c) in fails {
            run.fail(None, &w, c);
        }
    }
    // depth-2 histories: every ordered pair of groups (A, B) with bit-identical cell and site
    // numbers; on a fresh thread A's crystal is placed first, then B's, which is judged
    let mut pair_jobs: Vec<(usize, usize, usize)> = vec![];
    for a in 0..GROUP_NAMES.len() {
        for b in 0..GROUP_NAMES.len() {
            for k in 0..probes.len() {
                if a != b {
                    pair_jobs.push((a, b, k));
                }
            }
        }
    }
    let pres = par_map(&pair_jobs, |_, &(ia, ib, k)| {
        let (ga, gb) = (GROUP_NAMES[ia], GROUP_NAMES[ib]);
        let sj = &probes[k].1;
        let pts = body_from_json(sj).points();
        let (ta, tb) = (StateTemplate::new(ga, sj), StateTemplate::new(gb, sj));
        let mut bad = vec![];
        let mut n = 0u64;
        for &(x, y, phi) in [(0.1, 0.41, 0.4), (-0.25, -0.25, 0.), (-0.375, -0.375, 0.), (0.5, -0.5, PI)].iter() {
            let p = Params { length: 3., ratio: 0.73, angle: PI / 2., x, y, phi };
            let placed = std::thread::scope(|sc| {
                sc.spawn(|| {
                    let first = AnyState::from_json(&ta.with(&p)).unwrap_or_else(|e| machinery_error(&e));
                    let _ = first.cartesian();
                    let _ = first.score();
                    AnyState::from_json(&tb.with(&p)).unwrap_or_else(|e| machinery_error(&e)).cartesian()
                })
                .join()
                .unwrap_or_else(|_| machinery_error("a placement panicked"))
            });
            n += 1;
            if let Some(what) = c04_judge(gb, &placed, &pts, &p) {
                if bad.len() < 2 {
                    bad.push((format!("{} ({}) placed right after the {} crystal with the same numbers on the same thread: {}", gb, probes[k].0, ga, what), json!({"engine": "group-pair", "first": ga, "second": gb, "shape": sj, "params": p.json()})));
                }
            }
        }
        (n, bad)
    });
    let mut pair_n = 0u64;
    for (n, bad) in pres {
        pair_n += n;
        for (w, c) in bad {
            run.fail(None, &w, c);
        }
    }
    run.set("ordered_group_pairs_placed_on_one_thread", pair_n);
    // states reached by optimisation (angle and ratio drift): chained-stage search
    let sweep_cfg = crate::rsx::Sweep { depth: tier.pick(3, 5), cap: tier.pick(1000, 50_000), dense_steps: 300, shapes: crate::rsx::start_shapes(tier) };
    let (rf, rstarts) = crate::rsx::sweep(&sweep_cfg, &crate::rsx::Wants { c01: false, c04: true, c05: false, c08: false, c19: false });
    for (w, c) in rf.c04 {
        run.fail(None, &w, c);
    }
    run.set("search_start_states", rstarts);
    run.set("search_states", rf.states);
    run.set("search_stage_executions", rf.transitions);
    run.set("search_depth", rf.max_depth as u64);
    run.set("search_cap_hit", rf.cap_hit);
    run.set("states", evals + rf.states);
    run.set("transitions", evals + rf.transitions);
    run.set("traces_validated_against_impl", evals + rf.transitions);
    run.set("evaluations", evals);
    run.set("distinct_nontrivial", evals);
    run.set("failing_states", fc);
    run.set("exhaustive", true);
    run.set("rule", "complete product: 7 groups x 2 state kinds (asymmetric probe shapes: scalene radial pentagon, trimer with unequal arms) x cells of the group's family (3 lengths x 4 ratios x 4 angles for oblique groups) x site grid incl. bounds x orientations; plus the constructor-built initial states. Every state: each operation of an independent ITA table, conjugated into Cartesian space with this cell, must be orthogonal and map the placed point sets onto each other up to lattice vectors");
    run.set("explanation", "states = constructible lattice states plus distinct states reached by the chained-stage search (engine rsx: BFS whose transition is one real optimiser stage under scripted draws, from the initial and a dense state of every group x shape x {hard, LJ}); every state returned by a stage is judged by the same symmetry oracle, so angle/ratio drift under optimisation is covered to the reported depth.");
    run.sample(json!({"group": "p2mg", "kind": "hard", "params": {"length": 3., "ratio": 0.34, "angle": PI / 2., "x": 0.41, "y": -0.25, "phi": 2.2}}));
    run.finish()
}
