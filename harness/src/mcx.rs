// mcx: scripted-environment explorer for the real Monte-Carlo optimiser.
//
// The optimiser's only nondeterminism is its three random draws per step and what the state
// answers to score(). Both are scripted here (draws through the crate's `verif` hook, answers
// through a probe State), so one run is a deterministic function of (configuration, script).

use std::collections::HashMap;
use std::panic::{self, AssertUnwindSafe};
use std::sync::{Arc, Mutex};

use rand::distributions::{Distribution, Uniform};
use rand::{Rng, RngCore};
use serde::{Serialize, Serializer};
use serde_json::{json, Value};
use structopt::StructOpt;
use svg::Document;

use packing::traits::*;
use packing::verif_hooks::{self, Draw};
use packing::{BuildOptimiser, SharedValue, StandardBasis};

use crate::common::machinery_error;

// ------------------------------------------------------------------------------------------
// word encodings (rand 0.7.3), verified by `calibrate`

pub fn index_word(i: usize, n: usize) -> u64 {
    // smallest v with floor(v * n / 2^64) == i
    let v = ((i as u128) << 64) + (n as u128 - 1);
    (v / n as u128) as u64
}

/// q in [0,1) -> the draw gen_range(-0.5, 0.5) == q - 0.5 (q is truncated to 52 bits)
pub fn unit_word(q: f64) -> u64 {
    ((q * 4503599627370496.0) as u64) << 12
}

/// t in [0,1) -> gen::<f64>() == t (t is truncated to 53 bits)
pub fn threshold_word(t: f64) -> u64 {
    ((t * 9007199254740992.0) as u64) << 11
}

pub fn threshold_word_k(k: u64) -> u64 {
    k << 11
}

struct ConstRng(u64);
impl RngCore for ConstRng {
    fn next_u32(&mut self) -> u32 {
        self.0 as u32
    }
    fn next_u64(&mut self) -> u64 {
        self.0
    }
    fn fill_bytes(&mut self, dest: &mut [u8]) {
        for b in dest.iter_mut() {
            *b = self.0 as u8;
        }
    }
    fn try_fill_bytes(&mut self, dest: &mut [u8]) -> Result<(), rand::Error> {
        self.fill_bytes(dest);
        Ok(())
    }
}

pub const UNIT_QS: [f64; 4] = [0., 0.25, 0.75, 1. - 1. / 4503599627370496.0];
pub const THRESHOLDS: [f64; 5] = [0., 0.25, 0.5, 0.75, 1. - 1. / 9007199254740992.0];

/// Ask rand itself to decode the words the explorer serves; any mismatch is a machinery error.
pub fn calibrate() {
    for n in 1..=8usize {
        for i in 0..n {
            let w = index_word(i, n);
            let got: usize = Uniform::new(0, n).sample(&mut ConstRng(w));
            if got != i {
                machinery_error(&format!("calibration: index word for {}/{} decodes to {}", i, n, got));
            }
        }
    }
    for &q in UNIT_QS.iter().chain([0.5, 0.1, 0.9].iter()) {
        let got: f64 = ConstRng(unit_word(q)).gen_range(-0.5, 0.5);
        let want = ((q * 4503599627370496.0) as u64) as f64 / 4503599627370496.0 - 0.5;
        if got != want {
            machinery_error(&format!("calibration: unit word for {} decodes to {} not {}", q, got, want));
        }
    }
    for &t in THRESHOLDS.iter().chain([0.1, 0.36787944117144233].iter()) {
        let got: f64 = ConstRng(threshold_word(t)).gen();
        let want = ((t * 9007199254740992.0) as u64) as f64 / 9007199254740992.0;
        if got != want || (want - t).abs() > 2f64.powi(-53) {
            machinery_error(&format!("calibration: threshold word for {} decodes to {}", t, got));
        }
    }
}

// ------------------------------------------------------------------------------------------
// configuration

pub const SETTER_ORDERS_BASE: u32 = 100;
pub const SETTER_ORDERS: usize = 5040;
pub const SETTER_NAMES: [&str; 7] = ["steps", "inner_steps", "kt_start", "kt_finish", "kt_ratio", "max_step_size", "convergence"];

/// The k-th permutation (factorial number system) of the seven setters.
pub fn setter_order(mut k: usize) -> Vec<usize> {
    let mut pool: Vec<usize> = (0..7).collect();
    let mut out = vec![];
    for n in (1..=7).rev() {
        let f: usize = (1..n).product();
        out.push(pool.remove((k / f) % n));
        k %= f;
    }
    out
}

#[derive(Clone, Debug, PartialEq)]
pub struct Cfg {
    pub steps: u64,
    pub inner: u64,
    pub kt_start: f64,
    pub kt_finish: Option<f64>,
    pub kt_ratio: Option<f64>,
    pub max_step: f64,
    pub convergence: Option<f64>,
    /// how the builder is brought to this configuration: 0 = a fresh builder from the argument
    /// parser; 1 = a default builder, decoy values for every field, then the final values in
    /// declaration order; 2 = a decoy step count, then the final values in reverse order, leaving
    /// inner_steps untouched when it equals the builder's default; SETTER_ORDERS_BASE + k = decoy
    /// values for every field, then the final values in the k-th order (of 5040) of the seven
    /// setters
    pub history: u32,
}

impl Cfg {
    pub fn json(&self) -> Value {
        json!({"steps": self.steps, "inner_steps": self.inner, "kt_start": self.kt_start, "kt_finish": self.kt_finish,
               "kt_ratio": self.kt_ratio, "max_step_size": self.max_step, "convergence": self.convergence, "builder_history": self.history})
    }
    pub fn from_json(v: &Value) -> Cfg {
        Cfg {
            steps: v["steps"].as_u64().unwrap(),
            inner: v["inner_steps"].as_u64().unwrap(),
            kt_start: v["kt_start"].as_f64().unwrap(),
            kt_finish: v["kt_finish"].as_f64(),
            kt_ratio: v["kt_ratio"].as_f64(),
            max_step: v["max_step_size"].as_f64().unwrap(),
            convergence: v["convergence"].as_f64(),
            history: v["builder_history"].as_u64().unwrap_or(0) as u32,
        }
    }
    /// Through the same argument parser the CLI uses (the only way to leave kt_finish unset).
    /// Can this configuration be reached through setter calls on a default builder? (a default
    /// builder carries kt_finish = 0.001, which no setter can remove; it is ignored when a ratio
    /// is given)
    pub fn reachable_by_setters(&self) -> bool {
        self.kt_finish.is_some() || self.kt_ratio.is_some()
    }
    pub fn with_history(&self, h: u32) -> Cfg {
        Cfg { history: h, ..self.clone() }
    }
    pub fn builder(&self) -> BuildOptimiser {
        if self.history == 1 && self.reachable_by_setters() {
            let mut b = BuildOptimiser::default();
            b.steps(2).inner_steps(1).kt_start(0.).kt_finish(5.).kt_ratio(Some(0.3)).max_step_size(0.7).convergence(Some(0.5));
            b.steps(self.steps).inner_steps(self.inner).kt_start(self.kt_start);
            if let Some(f) = self.kt_finish {
                b.kt_finish(f);
            }
            b.kt_ratio(self.kt_ratio).max_step_size(self.max_step).convergence(self.convergence).seed(12345);
            // (and handed on as a copy, the way the command line hands its builder to each replica)
            return b.clone();
        }
        if self.history == 2 && self.reachable_by_setters() {
            let mut b = BuildOptimiser::default();
            b.steps(3);
            b.seed(12345).convergence(self.convergence).max_step_size(self.max_step).kt_ratio(self.kt_ratio);
            if let Some(f) = self.kt_finish {
                b.kt_finish(f);
            }
            b.kt_start(self.kt_start);
            if self.inner != 1000 {
                b.inner_steps(self.inner);
            }
            b.steps(self.steps);
            return b;
        }
        if self.history >= SETTER_ORDERS_BASE && self.reachable_by_setters() {
            let mut b = BuildOptimiser::default();
            b.steps(2).inner_steps(1).kt_start(0.).kt_finish(5.).kt_ratio(Some(0.3)).max_step_size(0.7).convergence(Some(0.5));
            for which in setter_order((self.history - SETTER_ORDERS_BASE) as usize) {
                match which {
                    0 => {
                        b.steps(self.steps);
                    }
                    1 => {
                        b.inner_steps(self.inner);
                    }
                    2 => {
                        b.kt_start(self.kt_start);
                    }
                    3 => {
                        if let Some(f) = self.kt_finish {
                            b.kt_finish(f);
                        }
                    }
                    4 => {
                        b.kt_ratio(self.kt_ratio);
                    }
                    5 => {
                        b.max_step_size(self.max_step);
                    }
                    _ => {
                        b.convergence(self.convergence);
                    }
                }
            }
            b.seed(12345);
            return b;
        }
        let mut args: Vec<String> = vec!["opt".into()];
        args.push(format!("--steps={}", self.steps));
        args.push(format!("--inner-steps={}", self.inner));
        args.push(format!("--kt-start={:?}", self.kt_start));
        if let Some(f) = self.kt_finish {
            args.push(format!("--kt-finish={:?}", f));
        }
        if let Some(r) = self.kt_ratio {
            args.push(format!("--kt-ratio={:?}", r));
        }
        args.push(format!("--max-step-size={:?}", self.max_step));
        if let Some(c) = self.convergence {
            args.push(format!("--convergence={:?}", c));
        }
        let mut b = match BuildOptimiser::from_iter_safe(args.iter()) {
            Ok(b) => b,
            Err(e) => machinery_error(&format!("optimiser arguments rejected: {}", e)),
        };
        b.seed(12345);
        b
    }
    /// Length of one inner loop as the properties describe it.
    pub fn inner_eff(&self) -> u64 {
        self.inner.min(self.steps).max(1)
    }
    /// 0-based loop number of (1-based) step t.
    pub fn loop_of(&self, t: usize) -> usize {
        (t - 1) / self.inner_eff() as usize
    }
}

// ------------------------------------------------------------------------------------------
// probe state

#[derive(Clone, Debug)]
pub struct ProbeSpec {
    pub bounds: Vec<(f64, f64)>,
    pub start: Vec<f64>,
    pub s0: f64,
    /// true: the same parameter vector always gets the same answer (a landscape); false: the
    /// answers follow the script call by call (an adversarial, inconsistent score function)
    pub memo: bool,
    /// true: the state hands out one more handle, a second one for its first parameter (two
    /// handles on one shared cell, as a cell with tied sides would)
    pub alias: bool,
}

impl ProbeSpec {
    /// Number of handles generate_basis returns.
    pub fn handles(&self) -> usize {
        self.start.len() + self.alias as usize
    }
    pub fn aliased(mut self) -> ProbeSpec {
        self.alias = true;
        self
    }
    pub fn n(&self) -> usize {
        self.bounds.len()
    }
    pub fn standard(n: usize) -> ProbeSpec {
        match n {
            1 => ProbeSpec { bounds: vec![(-1., 1.)], start: vec![0.125], s0: 0., memo: true, alias: false },
            2 => ProbeSpec { bounds: vec![(-1., 1.), (0., 4.)], start: vec![0.25, 4.], s0: 0., memo: true, alias: false },
            3 => ProbeSpec { bounds: vec![(-1., 1.), (0., 4.), (0.1, 0.35)], start: vec![0., 2., 0.1], s0: 0., memo: true, alias: false },
            _ => panic!("probe size"),
        }
    }
    /// Interior start values, far from every bound.
    pub fn interior(n: usize) -> ProbeSpec {
        let mut p = ProbeSpec::standard(n);
        p.start = p.bounds.iter().map(|(lo, hi)| lo + 0.45 * (hi - lo)).collect();
        p
    }
    /// Start values outside the declared ranges (a state read from a file can carry anything).
    pub fn outside(n: usize) -> ProbeSpec {
        let mut p = ProbeSpec::standard(n);
        p.start = p.bounds.iter().enumerate().map(|(i, (lo, hi))| if i % 2 == 0 { hi + 0.3 * (hi - lo) } else { lo - 0.2 * (hi - lo) }).collect();
        p
    }
    /// A first parameter whose declared lower limit lies above its upper one, as the cell
    /// length of a crystal of tiny shapes has (limits 0.01 and the starting length 0.004).
    pub fn inverted(n: usize) -> ProbeSpec {
        let mut p = ProbeSpec::interior(n);
        p.bounds[0] = (0.01, 0.004);
        p.start[0] = 0.004;
        p
    }
    /// Start values a few units in the last place inside the lower limits (a clamped move then
    /// changes the value by less than machine epsilon).
    pub fn near_bound(n: usize) -> ProbeSpec {
        let mut p = ProbeSpec::standard(n);
        p.start = p.bounds.iter().map(|(lo, _)| f64::from_bits(if *lo >= 0. { lo.to_bits() + 3 } else { lo.to_bits() - 3 })).collect();
        p
    }
    /// Small start values of both signs in ranges that straddle zero: a rejected move crosses zero
    /// or changes the value several-fold, so an undo by subtraction is not exact.
    pub fn near_zero(n: usize) -> ProbeSpec {
        let starts = [0.003, -0.002, 0.0007];
        ProbeSpec { bounds: vec![(-1., 1.); n], start: starts[..n].to_vec(), s0: 0., memo: true, alias: false }
    }
    pub fn raw(mut self) -> ProbeSpec {
        self.memo = false;
        self
    }
    pub fn with_s0(mut self, s0: f64) -> ProbeSpec {
        self.s0 = s0;
        self
    }
    pub fn json(&self) -> Value {
        json!({"bounds": self.bounds, "start": self.start, "s0": self.s0, "memo": self.memo, "alias": self.alias})
    }
    pub fn from_json(v: &Value) -> ProbeSpec {
        ProbeSpec {
            bounds: v["bounds"].as_array().unwrap().iter().map(|b| (b[0].as_f64().unwrap(), b[1].as_f64().unwrap())).collect(),
            start: v["start"].as_array().unwrap().iter().map(|x| x.as_f64().unwrap()).collect(),
            s0: v["s0"].as_f64().unwrap(),
            memo: v["memo"].as_bool().unwrap_or(true),
            alias: v["alias"].as_bool().unwrap_or(false),
        }
    }
}

#[derive(Clone, Debug)]
pub enum Event {
    /// score() call: parameters seen, answer given, instance id
    Score(Vec<f64>, Option<f64>, usize),
    /// a draw: tag, word served
    Drew(Draw, u64),
}

#[derive(Debug, Default)]
pub struct Env {
    /// answer for the k-th score() call (0 = initial) unless the parameter vector was seen before
    pub answers: Vec<Option<f64>>,
    pub memo: HashMap<Vec<u64>, Option<f64>>,
    pub events: Vec<Event>,
    pub score_calls: usize,
    pub instances: usize,
    pub no_memo: bool,
}

pub struct Probe {
    vals: Vec<SharedValue>,
    alias: bool,
    bounds: Vec<(f64, f64)>,
    env: Arc<Mutex<Env>>,
    inst: usize,
}

impl Probe {
    pub fn new(spec: &ProbeSpec, env: Arc<Mutex<Env>>) -> Probe {
        Probe {
            vals: spec.start.iter().map(|v| SharedValue::new(*v)).collect(),
            alias: spec.alias,
            bounds: spec.bounds.clone(),
            env,
            inst: 0,
        }
    }
    fn params(&self) -> Vec<f64> {
        self.vals.iter().map(|v| v.get_value()).collect()
    }
}

impl Clone for Probe {
    fn clone(&self) -> Self {
        let inst = {
            let mut e = self.env.lock().unwrap();
            e.instances += 1;
            e.instances
        };
        Probe {
            vals: self.vals.iter().map(|v| SharedValue::new(v.get_value())).collect(),
            alias: self.alias,
            bounds: self.bounds.clone(),
            env: self.env.clone(),
            inst,
        }
    }
}

impl std::fmt::Debug for Probe {
    fn fmt(&self, f: &mut std::fmt::Formatter) -> std::fmt::Result {
        write!(f, "Probe{:?}", self.params())
    }
}

impl Serialize for Probe {
    fn serialize<S: Serializer>(&self, s: S) -> Result<S::Ok, S::Error> {
        self.params().serialize(s)
    }
}

impl PartialEq for Probe {
    fn eq(&self, o: &Self) -> bool {
        self.params() == o.params()
    }
}
impl Eq for Probe {}
impl PartialOrd for Probe {
    fn partial_cmp(&self, o: &Self) -> Option<std::cmp::Ordering> {
        Some(self.cmp(o))
    }
}
impl Ord for Probe {
    fn cmp(&self, o: &Self) -> std::cmp::Ordering {
        self.params().partial_cmp(&o.params()).unwrap_or(std::cmp::Ordering::Equal)
    }
}

impl ToSVG for Probe {
    type Value = Document;
    fn as_svg(&self) -> Document {
        Document::new()
    }
}

impl State for Probe {
    fn score(&self) -> Option<f64> {
        let p = self.params();
        let key: Vec<u64> = p.iter().map(|x| x.to_bits()).collect();
        let mut e = self.env.lock().unwrap();
        let call = e.score_calls;
        e.score_calls += 1;
        let known = if e.no_memo { None } else { e.memo.get(&key).cloned() };
        let ans = match known {
            Some(a) => a,
            None => {
                let a = match e.answers.get(call) {
                    Some(a) => *a,
                    // beyond the script: keep improving so the landscape stays well defined
                    None => Some(1e6 + call as f64),
                };
                e.memo.insert(key, a);
                a
            }
        };
        e.events.push(Event::Score(p, ans, self.inst));
        ans
    }
    fn generate_basis(&self) -> Vec<StandardBasis> {
        let mut b: Vec<StandardBasis> = self.vals.iter().zip(self.bounds.iter()).map(|(v, (lo, hi))| StandardBasis::new(v, *lo, *hi)).collect();
        if self.alias {
            b.push(StandardBasis::new(&self.vals[0], self.bounds[0].0, self.bounds[0].1));
        }
        b
    }
    fn total_shapes(&self) -> usize {
        1
    }
    fn as_positions(&self) -> Result<String, anyhow::Error> {
        Ok(String::new())
    }
}

// ------------------------------------------------------------------------------------------
// scripts and runs

/// What the environment answers at one Monte-Carlo step.
#[derive(Clone, Copy, Debug, PartialEq)]
pub struct StepScript {
    pub index: usize,
    /// q in [0,1): the displacement draw is q - 1/2
    pub q: f64,
    /// raw 53-bit threshold numerator: the acceptance draw is k * 2^-53
    pub thr_k: u64,
    pub answer: Option<f64>,
}

impl StepScript {
    pub fn thr(&self) -> f64 {
        self.thr_k as f64 / 9007199254740992.0
    }
    pub fn json(&self) -> Value {
        json!({"index": self.index, "q": self.q, "thr_k": self.thr_k, "answer": self.answer})
    }
    pub fn from_json(v: &Value) -> StepScript {
        StepScript {
            index: v["index"].as_u64().unwrap() as usize,
            q: v["q"].as_f64().unwrap(),
            thr_k: v["thr_k"].as_u64().unwrap(),
            answer: v["answer"].as_f64(),
        }
    }
}

pub fn thr_k_of(t: f64) -> u64 {
    (t * 9007199254740992.0) as u64
}

/// One proposal as observed.
#[derive(Clone, Debug)]
pub struct Proposal {
    pub params: Vec<f64>,
    pub answer: Option<f64>,
    pub index_word: Option<u64>,
    pub delta_word: Option<u64>,
    pub threshold: Option<f64>,
}

#[derive(Clone, Debug, Default)]
pub struct Obs {
    pub initial: Option<(Vec<f64>, Option<f64>)>,
    pub proposals: Vec<Proposal>,
    /// score() calls that were not proposals (initial call excluded): e.g. the final assertion
    pub plain_calls: usize,
    pub final_params: Option<Vec<f64>>,
    pub final_score: Option<Option<f64>>,
    pub panic: Option<String>,
    pub untagged_draws: usize,
    pub index_draws: usize,
    pub other_instance_calls: usize,
}

fn panic_text(p: Box<dyn std::any::Any + Send>) -> String {
    if let Some(s) = p.downcast_ref::<&str>() {
        s.to_string()
    } else if let Some(s) = p.downcast_ref::<String>() {
        s.clone()
    } else {
        "panic".to_string()
    }
}

/// Execute the real optimiser once under a script.
pub fn run_script(cfg: &Cfg, spec: &ProbeSpec, script: &[StepScript]) -> Obs {
    let env = Arc::new(Mutex::new(Env::default()));
    {
        let mut e = env.lock().unwrap();
        e.no_memo = !spec.memo;
        e.answers.push(Some(spec.s0));
        for s in script {
            e.answers.push(s.answer);
        }
    }
    let n = spec.handles();
    let words: Vec<(u64, u64, u64)> = script
        .iter()
        .map(|s| (index_word(s.index.min(n - 1), n), unit_word(s.q), threshold_word_k(s.thr_k)))
        .collect();
    let env2 = env.clone();
    let mut step = 0usize; // number of Index draws seen
    verif_hooks::install(Some(Box::new(move |draw, real| {
        let served = match draw {
            Draw::Index => {
                step += 1;
                words.get(step - 1).map(|w| w.0).unwrap_or_else(|| index_word(0, n))
            }
            // (a displacement draw beyond the script - a move the run was not asked for - moves)
            Draw::Delta => words.get(step.max(1) - 1).map(|w| w.1).unwrap_or_else(|| unit_word(0.25)),
            Draw::Threshold => words.get(step.max(1) - 1).map(|w| w.2).unwrap_or_else(|| threshold_word(0.5)),
            Draw::Other => real,
        };
        env2.lock().unwrap().events.push(Event::Drew(draw, served));
        served
    })));
    let probe = Probe::new(spec, env.clone());
    let builder = cfg.builder();
    let result = panic::catch_unwind(AssertUnwindSafe(|| {
        let opt = builder.build();
        let out = opt.optimise_state(probe);
        // (one value per parameter: a second handle on the first parameter repeats its value)
        let fp: Vec<f64> = out.generate_basis().iter().take(spec.n()).map(|b| b.get_value()).collect();
        // the score of the returned state, asked after the run (memoised landscape)
        verif_hooks::install(None);
        let fs = out.score();
        (fp, fs)
    }));
    verif_hooks::install(None);
    let mut obs = Obs {
        initial: None,
        proposals: vec![],
        plain_calls: 0,
        final_params: None,
        final_score: None,
        panic: None,
        untagged_draws: 0,
        index_draws: 0,
        other_instance_calls: 0,
    };
    let mut e = env.lock().unwrap();
    let mut events = std::mem::replace(&mut e.events, vec![]);
    match result {
        Ok((fp, fs)) => {
            obs.final_params = Some(fp);
            obs.final_score = Some(fs);
            // the harness's own closing score() call is not part of the run
            if let Some(Event::Score(..)) = events.last() {
                events.pop();
            }
        }
        Err(p) => obs.panic = Some(panic_text(p)),
    }
    fold_events(&mut obs, events);
    obs
}

/// Fold a stream of score() calls and tagged draws into proposals: a proposal is a score() call
/// that follows a displacement draw; the acceptance draw that follows it is its threshold.
pub fn fold_events(obs: &mut Obs, events: Vec<Event>) {
    let mut pend_index: Option<u64> = None;
    let mut pend_delta: Option<u64> = None;
    for ev in events.into_iter() {
        match ev {
            Event::Drew(Draw::Index, w) => {
                obs.index_draws += 1;
                pend_index = Some(w);
            }
            Event::Drew(Draw::Delta, w) => pend_delta = Some(w),
            Event::Drew(Draw::Threshold, w) => {
                let t = (w >> 11) as f64 / 9007199254740992.0;
                if let Some(last) = obs.proposals.last_mut() {
                    if last.threshold.is_none() {
                        last.threshold = Some(t);
                    }
                }
            }
            Event::Drew(Draw::Other, _) => obs.untagged_draws += 1,
            Event::Score(p, a, inst) => {
                if inst != 0 {
                    obs.other_instance_calls += 1;
                }
                if obs.initial.is_none() {
                    obs.initial = Some((p, a));
                } else if pend_delta.is_some() {
                    obs.proposals.push(Proposal { params: p, answer: a, index_word: pend_index.take(), delta_word: pend_delta.take(), threshold: None });
                } else {
                    obs.plain_calls += 1;
                }
            }
        }
    }
}

// ------------------------------------------------------------------------------------------
// analysis: which accept/reject histories are consistent with the observations

pub const F_NONE_ACCEPTED: u32 = 1 << 0;
pub const F_BETTER_REJECTED: u32 = 1 << 1;
pub const F_WORSE_ACCEPTED_ZERO_T_FIRST: u32 = 1 << 2;
pub const F_WORSE_ACCEPTED_ZERO_T_LATER: u32 = 1 << 3;
pub const F_METROPOLIS_FIRST_LOOP: u32 = 1 << 4;
pub const F_STEP_TOO_BIG: u32 = 1 << 5;
pub const F_SCORE_DECREASED: u32 = 1 << 6;

pub fn flag_names(f: u32) -> Vec<&'static str> {
    let mut v = vec![];
    if f & F_NONE_ACCEPTED != 0 {
        v.push("accepted a proposal without a score");
    }
    if f & F_BETTER_REJECTED != 0 {
        v.push("rejected a better or equal proposal");
    }
    if f & F_WORSE_ACCEPTED_ZERO_T_FIRST != 0 {
        v.push("accepted a worse proposal at temperature zero (first loop)");
    }
    if f & F_WORSE_ACCEPTED_ZERO_T_LATER != 0 {
        v.push("accepted a worse proposal in a later loop that runs at temperature zero");
    }
    if f & F_METROPOLIS_FIRST_LOOP != 0 {
        v.push("decision contradicts u < exp(-d/kT) at the starting temperature");
    }
    if f & F_STEP_TOO_BIG != 0 {
        v.push("move larger than max_step_size * range / 2");
    }
    if f & F_SCORE_DECREASED != 0 {
        v.push("an accepted score is lower than the one before");
    }
    v
}

#[derive(Clone, Debug)]
struct Cand {
    params: Vec<u64>,
    score: f64,
    flags: u32,
    /// accept/reject word of this history (bit t-1 set = step t accepted), valid for <= 64 steps
    word: u64,
    /// score at the start of each loop and current, for the convergence monitor
    first_flag_step: usize,
}

#[derive(Clone, Debug, Default)]
pub struct Analysis {
    /// proposal t (1-based) differs from every admissible current state in more than one coordinate
    pub not_derived_at: Option<usize>,
    /// the returned state is not the state of any consistent history
    pub final_mismatch: bool,
    /// flags common to every consistent history (a property is violated only if no consistent
    /// history avoids the flag)
    pub flags_all: u32,
    /// the same over the histories that obey the deterministic clauses of the acceptance rule
    /// (nothing without a score accepted, nothing better rejected, nothing worse accepted at zero
    /// temperature); equal to flags_all when no history obeys them
    pub flags_lawful: u32,
    /// number of consistent histories at the end
    pub histories: usize,
    /// accept word and final believed score when the history is unique
    pub unique_word: Option<u64>,
    pub unique_score: Option<f64>,
    pub accepts: usize,
    pub rejects: usize,
    pub first_flag_step: usize,
    /// believed score after each step (unique history only)
    pub score_trace: Vec<f64>,
}

fn bits(v: &[f64]) -> Vec<u64> {
    v.iter().map(|x| x.to_bits()).collect()
}

/// Expected decision for a proposal with answer `a` when the current score is `cur`.
/// Some(true) accept, Some(false) reject, None not determined by the properties' deterministic
/// clauses. Returns the flag to raise if the decision is contradicted.
fn expected(cfg: &Cfg, t: usize, a: Option<f64>, cur: f64, thr: Option<f64>) -> (Option<bool>, u32) {
    match a {
        None => (Some(false), F_NONE_ACCEPTED),
        Some(x) if x.is_nan() => (None, 0),
        Some(x) if x >= cur => (Some(true), F_BETTER_REJECTED),
        Some(x) => {
            let first = cfg.loop_of(t) == 0;
            if cfg.kt_start == 0. {
                (Some(false), if first { F_WORSE_ACCEPTED_ZERO_T_FIRST } else { F_WORSE_ACCEPTED_ZERO_T_LATER })
            } else if first && cfg.kt_start > 0. && cfg.kt_start.is_finite() {
                match thr {
                    None => (None, 0),
                    Some(u) => {
                        let p = ((x - cur) / cfg.kt_start).exp();
                        if u < p * (1. - 1e-12) {
                            (Some(true), F_METROPOLIS_FIRST_LOOP)
                        } else if u > p * (1. + 1e-12) {
                            (Some(false), F_METROPOLIS_FIRST_LOOP)
                        } else {
                            (None, 0)
                        }
                    }
                }
            } else if !first && cfg.kt_start > 0. && (cfg.kt_ratio == Some(1.) || (cfg.kt_ratio.is_none() && cfg.kt_finish == Some(0.))) {
                // a cooling factor of exactly zero (all of the temperature taken away, or a
                // finishing temperature of zero): every loop after the first runs at zero
                (Some(false), F_WORSE_ACCEPTED_ZERO_T_LATER)
            } else {
                (None, 0)
            }
        }
    }
}

/// `step_bound[i]`: largest admissible |move| of coordinate i (C19), or None to skip that monitor.
fn lawful_and<'a, I: Iterator<Item = &'a Cand>>(it: I, fallback: u32) -> u32 {
    let unlawful = F_NONE_ACCEPTED | F_BETTER_REJECTED | F_WORSE_ACCEPTED_ZERO_T_FIRST | F_WORSE_ACCEPTED_ZERO_T_LATER;
    let mut acc = u32::MAX;
    let mut any = false;
    for c in it {
        if c.flags & unlawful == 0 {
            acc &= c.flags;
            any = true;
        }
    }
    if any {
        acc
    } else {
        fallback
    }
}

pub fn analyse(cfg: &Cfg, obs: &Obs, step_bound: Option<&[f64]>) -> Analysis {
    let mut an = Analysis::default();
    let (p0, a0) = match &obs.initial {
        Some(x) => x.clone(),
        None => return an,
    };
    let mut cands = vec![Cand { params: bits(&p0), score: a0.unwrap_or(f64::NAN), flags: 0, word: 0, first_flag_step: 0 }];
    let mut words_forgotten = false;
    for (ti, prop) in obs.proposals.iter().enumerate() {
        let t = ti + 1;
        let pb = bits(&prop.params);
        let mut next: Vec<Cand> = vec![];
        for c in cands.iter() {
            let mut diff = 0usize;
            let mut which = 0usize;
            for i in 0..pb.len() {
                if pb[i] != c.params[i] {
                    diff += 1;
                    which = i;
                }
            }
            if diff > 1 {
                continue;
            }
            let mut flags = c.flags;
            let mut ffs = c.first_flag_step;
            if diff == 1 {
                if let Some(b) = step_bound {
                    let mv = (prop.params[which] - f64::from_bits(c.params[which])).abs();
                    if !(mv <= b[which]) {
                        flags |= F_STEP_TOO_BIG;
                        if ffs == 0 {
                            ffs = t;
                        }
                    }
                }
            }
            if diff == 0 {
                // the proposal is the current state (clamped at a bound): accepting or rejecting
                // it is unobservable and changes nothing
                next.push(Cand { params: c.params.clone(), score: c.score, flags, word: c.word, first_flag_step: ffs });
                continue;
            }
            let (exp, flag) = expected(cfg, t, prop.answer, c.score, prop.threshold);
            // rejected: the state stays
            {
                let mut f = flags;
                let mut s = ffs;
                if exp == Some(true) && diff == 1 {
                    f |= flag;
                    if s == 0 {
                        s = t;
                    }
                }
                next.push(Cand { params: c.params.clone(), score: c.score, flags: f, word: c.word, first_flag_step: s });
            }
            // accepted: the state becomes the proposal
            {
                let mut f = flags;
                let mut s = ffs;
                if exp == Some(false) && diff == 1 {
                    f |= flag;
                    if s == 0 {
                        s = t;
                    }
                }
                let new_score = prop.answer.unwrap_or(f64::NAN);
                if diff == 1 && prop.answer.map(|x| x < c.score).unwrap_or(false) {
                    f |= F_SCORE_DECREASED;
                    if s == 0 {
                        s = t;
                    }
                }
                let word = if t <= 64 { c.word | (1u64 << (t - 1)) } else { c.word };
                next.push(Cand { params: pb.clone(), score: if diff == 0 { c.score } else { new_score }, flags: f, word, first_flag_step: s });
            }
        }
        if next.is_empty() {
            an.not_derived_at = Some(t);
            return an;
        }
        // merge identical histories; if the set grows too large forget the accept words
        // (uniqueness is then not claimed)
        next.sort_by(|a, b| (&a.params, a.score.to_bits(), a.flags, a.word).cmp(&(&b.params, b.score.to_bits(), b.flags, b.word)));
        next.dedup_by(|a, b| a.params == b.params && a.score.to_bits() == b.score.to_bits() && a.flags == b.flags && a.word == b.word);
        if next.len() > 2048 {
            words_forgotten = true;
            for c in next.iter_mut() {
                c.word = 0;
            }
            next.sort_by(|a, b| (&a.params, a.score.to_bits(), a.flags).cmp(&(&b.params, b.score.to_bits(), b.flags)));
            next.dedup_by(|a, b| a.params == b.params && a.score.to_bits() == b.score.to_bits() && a.flags == b.flags);
        }
        let merged = next;
        cands = merged;
    }
    match &obs.final_params {
        None => {
            // panicked: judge by all histories
            an.histories = cands.len();
            an.flags_all = cands.iter().fold(u32::MAX, |acc, c| acc & c.flags);
            an.flags_lawful = lawful_and(cands.iter(), an.flags_all);
        }
        Some(fp) => {
            let fb = bits(fp);
            let matches: Vec<&Cand> = cands.iter().filter(|c| c.params == fb).collect();
            if matches.is_empty() {
                an.final_mismatch = true;
                an.histories = 0;
                return an;
            }
            an.histories = matches.len();
            an.flags_all = matches.iter().fold(u32::MAX, |acc, c| acc & c.flags);
            an.flags_lawful = lawful_and(matches.iter().cloned(), an.flags_all);
            an.first_flag_step = matches.iter().map(|c| c.first_flag_step).max().unwrap_or(0);
            let words: std::collections::BTreeSet<u64> = matches.iter().map(|c| c.word).collect();
            if words.len() == 1 && obs.proposals.len() <= 64 && !words_forgotten {
                let w = *words.iter().next().unwrap();
                an.unique_word = Some(w);
                an.unique_score = Some(matches[0].score);
                an.accepts = w.count_ones() as usize;
                an.rejects = obs.proposals.len() - an.accepts;
                // believed score trace
                let mut cur = a0.unwrap_or(f64::NAN);
                for (ti, p) in obs.proposals.iter().enumerate() {
                    if w >> ti & 1 == 1 {
                        if let Some(a) = p.answer {
                            // an accepted proposal identical to the current state keeps the score
                            cur = a;
                        }
                    }
                    an.score_trace.push(cur);
                }
            }
        }
    }
    an
}

// ------------------------------------------------------------------------------------------
// script enumeration

/// Alphabets of the deviation-bounded explorer.
pub struct Alphabet {
    pub n: usize,
    pub qs: Vec<f64>,
    pub thr_ks: Vec<u64>,
    /// answer offsets relative to the step number; None = invalid proposal
    pub offsets: Vec<Option<f64>>,
    /// default answer offsets, cycled over the steps (the baseline the deviations depart from)
    pub pattern: Vec<Option<f64>>,
    /// default displacement draw
    pub default_q: f64,
}

impl Alphabet {
    pub fn standard(n: usize) -> Alphabet {
        Alphabet {
            n,
            qs: UNIT_QS.to_vec(),
            thr_ks: THRESHOLDS.iter().map(|t| thr_k_of(*t)).collect(),
            offsets: vec![Some(0.), Some(-1.), Some(-1.001), Some(-100.), None],
            pattern: vec![Some(0.)],
            default_q: 0.75,
        }
    }
    pub fn with_pattern(mut self, pattern: Vec<Option<f64>>) -> Alphabet {
        self.pattern = pattern;
        self
    }
    pub fn default_step(&self, t: usize) -> StepScript {
        let off = self.pattern[(t - 1) % self.pattern.len()];
        StepScript { index: (t - 1) % self.n, q: self.default_q, thr_k: thr_k_of(0.5), answer: off.map(|x| t as f64 + x) }
    }
    /// Every alternative of step t that differs from the default in exactly one field.
    pub fn deviations(&self, t: usize) -> Vec<StepScript> {
        let d = self.default_step(t);
        let mut v = vec![];
        for i in 0..self.n {
            if i != d.index {
                v.push(StepScript { index: i, ..d });
            }
        }
        for &q in self.qs.iter() {
            if q != d.q {
                v.push(StepScript { q, ..d });
            }
        }
        for &k in self.thr_ks.iter() {
            if k != d.thr_k {
                v.push(StepScript { thr_k: k, ..d });
            }
        }
        for o in self.offsets.iter() {
            let a = o.map(|x| t as f64 + x);
            if a != d.answer {
                v.push(StepScript { answer: a, ..d });
            }
        }
        // worse than the previous default answer by the smallest representable amount
        let prev = (t - 1) as f64;
        let below = if prev == 0. { -f64::from_bits(1) } else { f64::from_bits(prev.to_bits() - 1) };
        v.push(StepScript { answer: Some(below), ..d });
        v
    }
}

/// All scripts of `len` steps with at most `max_dev` deviations from the default answers.
pub fn for_each_script<F: FnMut(&[StepScript], usize)>(alpha: &Alphabet, len: usize, max_dev: usize, mut f: F) {
    let defaults: Vec<StepScript> = (1..=len).map(|t| alpha.default_step(t)).collect();
    let devs: Vec<Vec<StepScript>> = (1..=len).map(|t| alpha.deviations(t)).collect();
    fn rec<F: FnMut(&[StepScript], usize)>(cur: &mut Vec<StepScript>, from: usize, left: usize, used: usize, devs: &[Vec<StepScript>], defaults: &[StepScript], f: &mut F) {
        f(cur, used);
        if left == 0 {
            return;
        }
        for pos in from..cur.len() {
            for d in devs[pos].iter() {
                cur[pos] = *d;
                rec(cur, pos + 1, left - 1, used + 1, devs, defaults, f);
            }
            cur[pos] = defaults[pos];
        }
    }
    let mut cur = defaults.clone();
    rec(&mut cur, 0, max_dev, 0, &devs, &defaults, &mut f);
}

/// Note: a deviation replaces one field of one step; two deviations always sit on two different
/// steps here (the same step deviating in two fields is covered by the full-product mode).
pub fn count_scripts(alpha: &Alphabet, len: usize, max_dev: usize) -> u64 {
    let mut n = 0u64;
    for_each_script(alpha, len, max_dev, |_, _| n += 1);
    n
}

/// Full product over a reduced alphabet, depth `len`.
pub fn for_each_product<F: FnMut(&[StepScript])>(n: usize, qs: &[f64], thr_ks: &[u64], offsets: &[Option<f64>], len: usize, absolute: bool, mut f: F) {
    let mut alts: Vec<Vec<StepScript>> = vec![];
    for t in 1..=len {
        let mut v = vec![];
        for i in 0..n {
            for &q in qs {
                for &k in thr_ks {
                    for o in offsets {
                        v.push(StepScript { index: i, q, thr_k: k, answer: o.map(|x| if absolute { x } else { t as f64 + x }) });
                    }
                }
            }
        }
        alts.push(v);
    }
    let mut idx = vec![0usize; len];
    let mut cur: Vec<StepScript> = (0..len).map(|t| alts[t][0]).collect();
    loop {
        f(&cur);
        let mut pos = len;
        loop {
            if pos == 0 {
                return;
            }
            pos -= 1;
            idx[pos] += 1;
            if idx[pos] < alts[pos].len() {
                cur[pos] = alts[pos][idx[pos]];
                break;
            }
            idx[pos] = 0;
            cur[pos] = alts[pos][0];
        }
    }
}

pub fn script_json(s: &[StepScript]) -> Value {
    Value::Array(s.iter().map(|x| x.json()).collect())
}

pub fn script_from_json(v: &Value) -> Vec<StepScript> {
    v.as_array().unwrap().iter().map(StepScript::from_json).collect()
}

/// A compact, order-sensitive fingerprint of what a run showed (for distinct-trace counting).
pub fn obs_fingerprint(obs: &Obs) -> u64 {
    use std::collections::hash_map::DefaultHasher;
    use std::hash::{Hash, Hasher};
    let mut h = DefaultHasher::new();
    if let Some((p, a)) = &obs.initial {
        bits(p).hash(&mut h);
        a.map(|x| x.to_bits()).hash(&mut h);
    }
    for p in obs.proposals.iter() {
        bits(&p.params).hash(&mut h);
        p.answer.map(|x| x.to_bits()).hash(&mut h);
    }
    obs.final_params.as_ref().map(|p| bits(p)).hash(&mut h);
    obs.panic.is_some().hash(&mut h);
    h.finish()
}
