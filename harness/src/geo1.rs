// Lattice sweeps of the pure geometric/numeric functions: C14 (cell), C15 (site placements),
// C13 (pair potential), C12 (pair overlap), C02 (areas and packing fraction).

use std::collections::BTreeSet;
use std::f64::consts::PI;

use nalgebra::Point2;
use serde_json::{json, Value};

use packing::traits::*;
use packing::{Cell2, LJShape2, LineShape, MolecularShape2, Transform2, LJ2};

use crate::common::*;
use crate::oracle::*;
use crate::states::*;

fn close(a: f64, b: f64, rel: f64, scale: f64) -> bool {
    (a - b).abs() <= rel * scale.max(1e-300) || (a == b)
}

// ------------------------------------------------------------------------------------------
// C14

fn cell_from(length: f64, ratio: f64, angle: f64, family: &str) -> Cell2 {
    serde_json::from_value(json!({"length": length, "ratio": ratio, "angle": angle, "family": family})).unwrap()
}

pub fn c14(tier: Tier) -> ! {
    let mut run = Run::new("C14", tier, "exploration");
    let lengths = [0.01, 0.5, 1., 3.7, 100.];
    // (a document can carry a ratio above one and an angle next to, but not at, a right angle)
    let ratios = [0.1, 0.34, 0.5, 0.73, 1., 1.5];
    let angles = [PI / 6., 0.7, 1., 1.3, PI / 2. - 1e-3, PI / 2. - 9e-7, PI / 2. - 1e-9, PI / 2., PI / 2. + 9e-7, 2.0, 1e-5, PI - 2e-5];
    let families = ["Monoclinic", "Orthorhombic", "Hexagonal", "Tetragonal"];
    let fr: Vec<f64> = vec![-1.5, -1.0, -0.5, -0.25, 0., 0.1, 0.5, 1.0, 1.5];
    let rots = [0., 0.3, PI / 2., PI, 4.1];
    let mut cells = vec![];
    for &l in lengths.iter() {
        for &r in ratios.iter() {
            for &a in angles.iter() {
                for f in families.iter() {
                    cells.push((l, r, a, *f));
                }
            }
        }
    }
    let results = par_map(&cells, |_, &(l, r, th, fam)| {
        let mut evals = 0u64;
        let mut fails: Vec<(String, Value)> = vec![];
        let mut images_seen = 0u64;
        let cell = cell_from(l, r, th, fam);
        let lat = Lattice::new(l, r, th);
        let mag = l * (1. + r);
        let cj = json!({"length": l, "ratio": r, "angle": th, "family": fam});
        let mut fail = |what: String, extra: Value| {
            if fails.len() < 3 {
                fails.push((what, json!({"cell": cj, "detail": extra})));
            }
        };
        // a, b, angle, area
        evals += 1;
        if !close(cell.a(), l, 1e-15, l) || !close(cell.b(), l * r, 1e-15, l * r) || cell.angle() != th {
            fail(format!("a/b/angle accessors ({}, {}, {})", cell.a(), cell.b(), cell.angle()), json!(null));
        }
        evals += 1;
        if !close(cell.area(), lat.area(), 1e-12, lat.area()) {
            fail(format!("area {} but |A x B| = {}", cell.area(), lat.area()), json!(null));
        }
        // centre and corners
        evals += 1;
        let c = cell.center();
        let ce = lat.cart([0.5, 0.5]);
        if !close(c.x, ce[0], 1e-12, mag) || !close(c.y, ce[1], 1e-12, mag) {
            fail(format!("centre ({}, {}) expected ({}, {})", c.x, c.y, ce[0], ce[1]), json!(null));
        }
        evals += 1;
        let corners = cell.get_corners();
        let mut want: Vec<P2> = vec![[-0.5, -0.5], [-0.5, 0.5], [0.5, 0.5], [0.5, -0.5]].into_iter().map(|f| lat.cart(f)).collect();
        if corners.len() != 4 {
            fail(format!("{} corners", corners.len()), json!(null));
        } else {
            for p in corners.iter() {
                if let Some(k) = want.iter().position(|w| close(p.x, w[0], 1e-12, mag) && close(p.y, w[1], 1e-12, mag)) {
                    want.remove(k);
                }
            }
            if !want.is_empty() {
                fail(format!("corners {:?} are not the images of (+-1/2, +-1/2)", corners), json!(null));
            }
        }
        for &fx in fr.iter() {
            for &fy in fr.iter() {
                // Cartesian map, three entry points
                evals += 1;
                let e = lat.cart([fx, fy]);
                let (cx, cy) = cell.to_cartesian(fx, fy);
                if !close(cx, e[0], 1e-12, mag) || !close(cy, e[1], 1e-12, mag) {
                    fail(format!("to_cartesian({}, {}) = ({}, {}), xA+yB = ({}, {})", fx, fy, cx, cy, e[0], e[1]), json!({"frac": [fx, fy]}));
                }
                let p = cell.to_cartesian_point(Point2::new(fx, fy));
                if !close(p.x, e[0], 1e-12, mag) || !close(p.y, e[1], 1e-12, mag) {
                    fail(format!("to_cartesian_point({}, {}) = ({}, {})", fx, fy, p.x, p.y), json!({"frac": [fx, fy]}));
                }
                for (ri, &rot) in rots.iter().enumerate() {
                    // placements: rotation, and a mirrored one
                    let mirrored = ri % 2 == 1;
                    let base = if mirrored {
                        Aff::rot_trans(rot, [fx, fy]).after(&Aff::mirror_x())
                    } else {
                        Aff::rot_trans(rot, [fx, fy])
                    };
                    let t = base.to_t2();
                    evals += 1;
                    let ci = Aff::from_t2(&cell.to_cartesian_isometry(t));
                    if ci.m != base.m || !close(ci.t[0], e[0], 1e-12, mag) || !close(ci.t[1], e[1], 1e-12, mag) {
                        fail(format!("to_cartesian_isometry changed the linear part or misplaced the translation: {:?}", ci), json!({"frac": [fx, fy], "rot": rot}));
                    }
                    if fx.abs() > 0.6 || fy.abs() > 0.6 {
                        continue;
                    }
                    for &k in [0i64, 1, 2, 3, 4, 5, 7, 12].iter() {
                        if k > 4 && (fx != 0.1 || ri > 1) {
                            continue;
                        }
                        for &zero in [false, true].iter() {
                            evals += 1;
                            let imgs: Vec<Aff> = cell.periodic_images(t, k, zero).map(|i| Aff::from_t2(&i)).collect();
                            images_seen += imgs.len() as u64;
                            let mut want: Vec<P2> = vec![];
                            for n in -k..=k {
                                for m in -k..=k {
                                    if !zero && n == 0 && m == 0 {
                                        continue;
                                    }
                                    want.push(add(e, lat.vec(n, m)));
                                }
                            }
                            let tol_mag = mag * (k as f64 + 2.);
                            let mut ok = imgs.len() == want.len();
                            if ok {
                                for i in imgs.iter() {
                                    if i.m != base.m {
                                        ok = false;
                                        break;
                                    }
                                    match want.iter().position(|w| close(i.t[0], w[0], 1e-12, tol_mag) && close(i.t[1], w[1], 1e-12, tol_mag)) {
                                        Some(p) => {
                                            want.swap_remove(p);
                                        }
                                        None => {
                                            ok = false;
                                            break;
                                        }
                                    }
                                }
                            }
                            if !ok {
                                fail(
                                    format!("periodic_images(k={}, zero={}) gave {} images, not the {} translates n*A+m*B each once with the orientation unchanged", k, zero, imgs.len(), (2 * k + 1).pow(2) - if zero { 0 } else { 1 }),
                                    json!({"frac": [fx, fy], "rot": rot, "mirrored": mirrored, "shells": k, "zero": zero}),
                                );
                            }
                        }
                    }
                }
            }
        }
        (evals, images_seen, fails)
    });
    let mut evals = 0u64;
    let mut images = 0u64;
    for (e, i, fails) in results {
        evals += e;
        images += i;
        for (w, c) in fails {
            run.fail(None, &w, c);
        }
    }
    // depth-2 histories: every ordered pair of 36 cells; everything cell B computes right after
    // cell A computed the same things on the same thread is, bit for bit, what B computes on a
    // thread of its own (those values are judged above)
    let digest = |l: f64, r: f64, th: f64, fam: &str| -> Vec<u64> {
        let cell = cell_from(l, r, th, fam);
        let mut v = vec![cell.a(), cell.b(), cell.angle(), cell.area(), cell.center().x, cell.center().y];
        for p in cell.get_corners().iter() {
            v.push(p.x);
            v.push(p.y);
        }
        let (x, y) = cell.to_cartesian(0.3, -0.7);
        v.push(x);
        v.push(y);
        let p = cell.to_cartesian_point(Point2::new(-0.45, 0.2));
        v.push(p.x);
        v.push(p.y);
        let t = Aff::rot_trans(0.3, [0.1, -0.2]).to_t2();
        let ci = Aff::from_t2(&cell.to_cartesian_isometry(t));
        v.extend_from_slice(&[ci.t[0], ci.t[1], ci.m[0][0], ci.m[0][1]]);
        for i in cell.periodic_images(t, 2, false) {
            let a = Aff::from_t2(&i);
            v.push(a.t[0]);
            v.push(a.t[1]);
        }
        v.into_iter().map(f64::to_bits).collect()
    };
    let mut hist_cells: Vec<(f64, f64, f64, &str)> = vec![];
    for &l in [0.5, 3.7].iter() {
        for &r in [0.34, 1., 1.5].iter() {
            for &a in [0.7, PI / 2. - 9e-7, PI / 2., 2.0].iter() {
                hist_cells.push((l, r, a, "Monoclinic"));
            }
            hist_cells.push((l, r, PI / 2., "Orthorhombic"));
            hist_cells.push((l, r, PI / 2., "Tetragonal"));
        }
    }
    let alone: Vec<Vec<u64>> = par_map(&hist_cells, |_, &(l, r, a, f)| std::thread::scope(|sc| sc.spawn(|| digest(l, r, a, f)).join().unwrap_or_default()));
    let idx: Vec<usize> = (0..hist_cells.len()).collect();
    let hres = par_map(&idx, |_, &i| {
        let mut bad = vec![];
        for j in 0..hist_cells.len() {
            if i == j {
                continue;
            }
            let (c1, c2) = (hist_cells[i], hist_cells[j]);
            let got = std::thread::scope(|sc| {
                sc.spawn(|| {
                    let _ = digest(c1.0, c1.1, c1.2, c1.3);
                    digest(c2.0, c2.1, c2.2, c2.3)
                })
                .join()
                .unwrap_or_default()
            });
            if got != alone[j] {
                bad.push((i, j));
            }
        }
        bad
    });
    let mut hist_pairs = 0u64;
    for bad in hres {
        hist_pairs += hist_cells.len() as u64 - 1;
        for (i, j) in bad.into_iter().take(1) {
            run.fail(None, &format!("cell {:?} computes other lengths, corners, Cartesian points or images right after cell {:?} on the same thread than on a thread of its own", hist_cells[j], hist_cells[i]), json!({"engine": "cell-pair", "first": format!("{:?}", hist_cells[i]), "second": format!("{:?}", hist_cells[j])}));
        }
    }
    run.set("ordered_cell_pairs_on_one_thread", hist_pairs);
    run.set("evaluations", evals + hist_pairs);
    run.set("distinct_nontrivial", evals);
    run.set("cells", cells.len() as u64);
    run.set("images_compared", images);
    run.set("exhaustive", true);
    run.set("rule", "complete product: 5 lengths x 6 ratios (incl. 1.5) x 10 angles (incl. obtuse 2.0 and angles 1e-9 .. 1e-3 from a right angle) x 4 family tags; 9x9 fractional points in [-1.5,1.5]^2; 5 rotations (alternately mirrored); shells 0..4 everywhere and 5, 7, 12 on a sub-grid; zero flag both. Every evaluation is a distinct (cell, point, placement, shells, flag) tuple compared with xA+yB, the multiset {T+nA+mB} and |AxB|");
    run.sample(json!({"cell": {"length": 3.7, "ratio": 0.34, "angle": 1.3, "family": "Monoclinic"}, "frac": [-0.25, 0.5], "rot": 0.3, "shells": 3, "zero": false}));
    run.finish()
}

// ------------------------------------------------------------------------------------------
// C15

pub fn c15(tier: Tier) -> ! {
    let mut run = Run::new("C15", tier, "exploration");
    let h = 0.5f64;
    let mut coords: Vec<f64> = vec![0., -0.0, 1e-300, -1e-300, 2f64.powi(-60), -(2f64.powi(-60)), 1e-17, -1e-17, 0.1, -0.1, 0.25, -0.25, 0.375, -0.375];
    let below_half = f64::from_bits(h.to_bits() - 1);
    let above_half = f64::from_bits(h.to_bits() + 1);
    for v in [below_half, h, above_half, 0.75, 1.0, 1.5, 7.25, 2.0 - 2f64.powi(-52), 0.5 - 1e-8, 0.5 - 1e-10, 1e-8].iter() {
        coords.push(*v);
        coords.push(-*v);
    }
    if tier == Tier::Thorough {
        for k in 1..40 {
            coords.push(-0.5 + k as f64 / 40.);
            coords.push(0.5 - (k as f64) * 2f64.powi(-54));
            coords.push(-0.5 - (k as f64) * 2f64.powi(-54));
        }
    }
    let phis = [0., 0.3, PI / 2., PI, 2. * PI - 2f64.powi(-50), 2. * PI, 2. * PI + 0.3, 4e-7, PI / 2. + 3e-7, 2. * PI - 5e-7];
    let shape = ShapeSpec::Polygon(3).json();
    let mut jobs = vec![];
    for g in GROUP_NAMES.iter() {
        for &x in coords.iter() {
            jobs.push((*g, x));
        }
    }
    let results = par_map(&jobs, |_, &(g, x)| {
        let tpl = StateTemplate::new(g, &shape);
        let ops = ita_ops(g);
        let mut evals = 0u64;
        let mut at_edge = 0u64;
        let mut fails: Vec<(String, Value)> = vec![];
        let placements = |x: f64, y: f64, phi: f64| -> Vec<Aff> {
            let p = Params { length: 2., ratio: 0.8, angle: PI / 2., x, y, phi };
            AnyState::from_json(&tpl.with(&p)).unwrap().relative()
        };
        for &y in coords.iter() {
            for &phi in phis.iter() {
                evals += 1;
                let pl = placements(x, y, phi);
                let case = json!({"group": g, "x": f64_bits_json(x), "y": f64_bits_json(y), "phi": phi});
                if pl.len() != ops.len() {
                    if fails.len() < 3 {
                        fails.push((format!("{} placements for a group of order {}", pl.len(), ops.len()), case.clone()));
                    }
                    continue;
                }
                let rot = Aff::rot_trans(phi, [0., 0.]);
                let mut used = vec![false; ops.len()];
                for (k, a) in pl.iter().enumerate() {
                    // half-open canonical cell
                    if !(a.t[0] >= -0.5 && a.t[0] < 0.5 && a.t[1] >= -0.5 && a.t[1] < 0.5) {
                        if fails.len() < 3 {
                            fails.push((format!("placement {} at ({:e}, {:e}) is outside [-1/2, 1/2)^2", k, a.t[0], a.t[1]), case.clone()));
                        }
                    }
                    if a.t[0] == -0.5 || a.t[1] == -0.5 {
                        at_edge += 1;
                    }
                    // matches exactly one operation of the group
                    let mut hit = None;
                    for (oi, o) in ops.iter().enumerate() {
                        if used[oi] {
                            continue;
                        }
                        let want = o.apply_frac([x, y]);
                        let lin = o.as_aff().after(&rot);
                        let tol = 1e-12 * (1. + x.abs() + y.abs());
                        let lin_ok = (0..2).all(|r| (0..2).all(|c| (a.m[r][c] - lin.m[r][c]).abs() <= 1e-15));
                        if lin_ok && dist_to_int(a.t[0] - want[0]) <= tol && dist_to_int(a.t[1] - want[1]) <= tol {
                            hit = Some(oi);
                            break;
                        }
                    }
                    match hit {
                        Some(oi) => used[oi] = true,
                        None => {
                            if fails.len() < 3 {
                                fails.push((format!("placement {} ({:?}) is not an unused operation of the group applied to the site", k, a), case.clone()));
                            }
                        }
                    }
                }
                // lattice-shifted and 2pi-shifted descriptions give the same placements
                if x.abs() <= 0.5 && y.abs() <= 0.5 && phi < 2. * PI {
                    for (dx, dy, dphi) in [(1., 0., 0.), (-1., 0., 0.), (0., 1., 0.), (0., -2., 0.), (2., 1., 0.), (0., 0., 2. * PI)].iter() {
                        evals += 1;
                        let q = placements(x + dx, y + dy, phi + dphi);
                        // compare as sets modulo the lattice: the wrap may legitimately send a
                        // coordinate within rounding of the cell face to either side of it
                        let same = q.len() == pl.len()
                            && pl.iter().all(|a| {
                                q.iter().any(|b| {
                                    dist_to_int(a.t[0] - b.t[0]) <= 1e-9
                                        && dist_to_int(a.t[1] - b.t[1]) <= 1e-9
                                        && (0..2).all(|r| (0..2).all(|c| (a.m[r][c] - b.m[r][c]).abs() <= 1e-9))
                                })
                            });
                        if !same {
                            if fails.len() < 3 {
                                fails.push((format!("site shifted by ({}, {}, {}) gives different placements", dx, dy, dphi), case.clone()));
                            }
                        }
                        for b in q.iter() {
                            if !(b.t[0] >= -0.5 && b.t[0] < 0.5 && b.t[1] >= -0.5 && b.t[1] < 0.5) && fails.len() < 3 {
                                fails.push((format!("shifted site: placement at ({:e}, {:e}) is outside [-1/2, 1/2)^2", b.t[0], b.t[1]), case.clone()));
                            }
                        }
                    }
                }
            }
        }
        (evals, at_edge, fails)
    });
    let mut evals = 0u64;
    let mut edge = 0u64;
    for (e, a, fails) in results {
        evals += e;
        edge += a;
        for (w, c) in fails {
            run.fail(None, &w, c);
        }
    }
    // operation lists the crate does not ship (a document or a caller can supply any): a square
    // group with a four-fold axis and a hexagonal one whose operations shear in lattice coordinates
    let mut custom_checks = 0u64;
    {
        let op = |a: f64, b: f64, c: f64, d: f64, tx: f64, ty: f64| Aff { m: [[a, b], [c, d]], t: [tx, ty] };
        let p4 = vec![op(1., 0., 0., 1., 0., 0.), op(0., -1., 1., 0., 0., 0.), op(-1., 0., 0., -1., 0., 0.), op(0., 1., -1., 0., 0., 0.)];
        let p3m1 = vec![
            op(1., 0., 0., 1., 0., 0.),
            op(0., -1., 1., -1., 0., 0.),
            op(-1., 1., -1., 0., 0., 0.),
            op(0., -1., -1., 0., 0., 0.),
            op(-1., 1., 0., 1., 0., 0.),
            op(1., 0., 1., -1., 0., 0.),
        ];
        let pgx = vec![op(1., 0., 0., 1., 0., 0.), op(1., 0., 0., -1., 0.5, 0.25)];
        // the same groups listed with another operation first
        let p2_rev = vec![op(-1., 0., 0., -1., 0., 0.), op(1., 0., 0., 1., 0., 0.)];
        let centred = vec![op(1., 0., 0., 1., 0.5, 0.5), op(1., 0., 0., 1., 0., 0.)];
        let p4_rot: Vec<Aff> = p4.iter().cycle().skip(2).take(4).cloned().collect();
        // twelve operations (p6mm in lattice coordinates): more copies than any group shipped
        let p6mm: Vec<Aff> = {
            let six = [op(1., 0., 0., 1., 0., 0.), op(1., -1., 1., 0., 0., 0.), op(0., -1., 1., -1., 0., 0.), op(-1., 0., 0., -1., 0., 0.), op(-1., 1., -1., 0., 0., 0.), op(0., 1., -1., 1., 0., 0.)];
            let m = op(0., 1., 1., 0., 0., 0.);
            six.iter().cloned().chain(six.iter().map(|r| r.after(&m))).collect()
        };
        for (gname, family, ops) in [("p4", "Tetragonal", &p4), ("p3m1", "Hexagonal", &p3m1), ("glide along x with an offset", "Orthorhombic", &pgx), ("p2 listed two-fold first", "Monoclinic", &p2_rev), ("centred cell listed centring first", "Orthorhombic", &centred), ("p4 listed from the half turn", "Tetragonal", &p4_rot), ("p6mm", "Hexagonal", &p6mm)].iter() {
            let syms: Vec<Value> = ops.iter().map(|o| json!([o.m[0][0], o.m[1][0], 0., o.m[0][1], o.m[1][1], 0., o.t[0], o.t[1], 0.])).collect();
            for &x in [0.11, -0.5, 0.5, 0.3, 0.].iter() {
                for &y in [-0.23, 0.5, 0.17, 0.].iter() {
                    for &phi in [0., 0.4, 2.2].iter() {
                        let doc = json!({
                            "wallpaper": {"name": gname, "family": family},
                            "shape": shape,
                            "cell": {"length": 3., "ratio": 1., "angle": if *family == "Hexagonal" { 2. * PI / 3. } else { PI / 2. }, "family": family},
                            "occupied_sites": [{"wyckoff": {"letter": "a", "symmetries": syms, "num_rotations": 1, "mirror_primary": false, "mirror_secondary": false}, "x": x, "y": y, "angle": phi}],
                        });
                        let st = match AnyState::from_json(&doc) {
                            Ok(s) => s,
                            Err(e) => machinery_error(&e),
                        };
                        custom_checks += 1;
                        let pl = st.relative();
                        let rot = Aff::rot_trans(phi, [0., 0.]);
                        let ok = pl.len() == ops.len()
                            && pl.iter().zip(ops.iter()).all(|(a, o)| {
                                let want = o.apply([x, y]);
                                let lin = o.after(&rot);
                                (0..2).all(|r| (0..2).all(|c| (a.m[r][c] - lin.m[r][c]).abs() <= 1e-15))
                                    && dist_to_int(a.t[0] - want[0]) <= 1e-12
                                    && dist_to_int(a.t[1] - want[1]) <= 1e-12
                                    && a.t[0] >= -0.5 && a.t[0] < 0.5 && a.t[1] >= -0.5 && a.t[1] < 0.5
                            });
                        if !ok {
                            run.fail(None, &format!("{}: site ({}, {}, {}) does not yield the operations applied to the site, wrapped into the cell", gname, x, y, phi), json!({"engine": "document", "state": doc}));
                        }
                    }
                }
            }
        }
    }
    run.set("custom_operation_list_sites", custom_checks);
    // depth-2 histories: every ordered pair of the seven groups (A, B) at bit-identical site
    // coordinates; on a fresh thread A's placements are asked for first, then B's, which must be
    // B's operations applied to the site
    let mut pair_checks = 0u64;
    {
        let hist_coords: Vec<(f64, f64, f64)> = vec![(0.11, -0.23, 0.4), (-0.25, -0.25, 0.), (-0.375, -0.375, 0.), (0.5, -0.5, PI), (0., 0., 0.3), (0.25, 0.1, 2. * PI)];
        let mut pj: Vec<(usize, usize)> = vec![];
        for a in 0..GROUP_NAMES.len() {
            for b in 0..GROUP_NAMES.len() {
                if a != b {
                    pj.push((a, b));
                }
            }
        }
        let res = par_map(&pj, |_, &(ia, ib)| {
            let (ga, gb) = (GROUP_NAMES[ia], GROUP_NAMES[ib]);
            let (ta, tb) = (StateTemplate::new(ga, &shape), StateTemplate::new(gb, &shape));
            let ops = ita_ops(gb);
            let mut bad: Vec<(String, Value)> = vec![];
            let mut n = 0u64;
            for &(x, y, phi) in hist_coords.iter() {
                let p = Params { length: 2., ratio: 0.8, angle: PI / 2., x, y, phi };
                let pl = std::thread::scope(|sc| {
                    sc.spawn(|| {
                        let _ = AnyState::from_json(&ta.with(&p)).unwrap().relative();
                        AnyState::from_json(&tb.with(&p)).unwrap().relative()
                    })
                    .join()
                    .unwrap_or_else(|_| machinery_error("a placement evaluation panicked"))
                });
                n += 1;
                let rot = Aff::rot_trans(phi, [0., 0.]);
                let mut used = vec![false; ops.len()];
                let mut ok = pl.len() == ops.len();
                for a in pl.iter() {
                    let hit = ops.iter().enumerate().position(|(oi, o)| {
                        let want = o.apply_frac([x, y]);
                        let lin = o.as_aff().after(&rot);
                        !used[oi] && (0..2).all(|r| (0..2).all(|c| (a.m[r][c] - lin.m[r][c]).abs() <= 1e-15)) && dist_to_int(a.t[0] - want[0]) <= 1e-12 && dist_to_int(a.t[1] - want[1]) <= 1e-12
                    });
                    match hit {
                        Some(oi) => used[oi] = true,
                        None => ok = false,
                    }
                }
                if !ok && bad.len() < 2 {
                    bad.push((format!("{}: the placements of site ({}, {}, {}) asked for right after those of the same site of {} on the same thread are not the group's operations applied to the site", gb, x, y, phi, ga), json!({"engine": "group-pair", "first": ga, "second": gb, "x": x, "y": y, "phi": phi})));
                }
            }
            (n, bad)
        });
        for (n, bad) in res {
            pair_checks += n;
            for (w, c) in bad {
                run.fail(None, &w, c);
            }
        }
    }
    run.set("ordered_group_pairs_sites_placed_on_one_thread", pair_checks);
    // a live object must give the placements a freshly read object with the same numbers gives,
    // after every single-parameter edit (what the optimiser does to it thousands of times)
    let mut live_checks = 0u64;
    for g in GROUP_NAMES.iter() {
        for spec in [ShapeSpec::Polygon(3), ShapeSpec::LjTrimer(0.637556, 120., 1.)].iter() {
            let sj = spec.json();
            let tpl = StateTemplate::new(g, &sj);
            let p0 = Params { length: 9., ratio: 0.8, angle: if ita_family(g) == "Monoclinic" { 1.3 } else { PI / 2. }, x: 0.11, y: -0.23, phi: 0.4 };
            let live = AnyState::from_json(&tpl.with(&p0)).unwrap();
            let nb = live.basis_values().len();
            // touch every parameter several times, orientation-only and position-only moves interleaved
            let edits: Vec<(usize, f64)> = vec![
                (nb - 1, 1.1), (nb - 1, 2.9), (nb - 3, -0.31), (nb - 1, 0.2), (nb - 2, 0.5), (nb - 3, 0.5), (nb - 1, 6.1),
                (0, 7.5), (1, 0.6), (nb - 1, 3.3), (0, 6.9), (nb - 2, -0.5), (nb - 3, -0.5), (nb - 1, 0.), (1, 0.35), (nb - 3, 0.25), (nb - 1, 4.4),
            ];
            let _ = live.relative();
            for (step, (idx, val)) in edits.iter().enumerate() {
                live.set_basis_value(*idx, *val);
                live_checks += 1;
                let doc = live.to_json();
                let fresh = AnyState::from_json(&doc).unwrap();
                let same = |a: &Vec<Aff>, b: &Vec<Aff>| a.len() == b.len() && a.iter().zip(b.iter()).all(|(p, q)| p.m == q.m && p.t[0].to_bits() == q.t[0].to_bits() && p.t[1].to_bits() == q.t[1].to_bits());
                if !same(&live.relative(), &fresh.relative()) || !same(&live.cartesian(), &fresh.cartesian()) {
                    run.fail(None, &format!("{} {}: after edit {} (parameter {} := {}) the live object places its copies differently from a freshly read object with the same numbers", g, spec.label(), step + 1, idx, val), json!({"group": g, "shape": spec.label(), "edits": edits[..=step].to_vec(), "state": doc}));
                    break;
                }
                let (ls, fs) = (live.score(), fresh.score());
                if ls.map(|x| x.to_bits()) != fs.map(|x| x.to_bits()) {
                    run.fail(None, &format!("{} {}: after edit {} the live object scores {:?}, a freshly read object with the same numbers {:?}", g, spec.label(), step + 1, ls, fs), json!({"group": g, "shape": spec.label(), "edits": edits[..=step].to_vec(), "state": doc}));
                    break;
                }
            }
        }
    }
    // the copies handed out for one call belong to one site: a parameter edited while the list is
    // being read does not mix two sites
    let mut partial = 0u64;
    for g in GROUP_NAMES.iter() {
        if let AnyState::Poly(st) = AnyState::from_group(g, &ShapeSpec::Polygon(3)) {
            let basis = st.generate_basis();
            let nb = basis.len();
            drop(basis);
            let before: Vec<Aff> = st.relative_positions().map(|t| Aff::from_t2(&t)).collect();
            let mut it = st.relative_positions();
            let mut got: Vec<Aff> = it.next().iter().map(Aff::from_t2).collect();
            {
                let mut b = st.generate_basis();
                b[nb - 3].set_value(0.31);
                b[nb - 1].set_value(1.7);
            }
            got.extend(it.map(|t| Aff::from_t2(&t)));
            let after: Vec<Aff> = st.relative_positions().map(|t| Aff::from_t2(&t)).collect();
            partial += 1;
            let same = |a: &Vec<Aff>, b: &Vec<Aff>| a.len() == b.len() && a.iter().zip(b.iter()).all(|(p, q)| p.m == q.m && p.t == q.t);
            if !(same(&got, &before) || same(&got, &after)) {
                run.fail(None, &format!("{}: the copies read while a site parameter was edited belong neither to the site before the edit nor to the site after it", g), json!({"engine": "partial", "group": g}));
            }
        }
    }
    run.set("placement_lists_read_across_an_edit", partial);
    // however the list is consumed (one by one, folded, counted from the back), it is the same list;
    // sites on and next to the cell faces
    let mut consumed = 0u64;
    for g in GROUP_NAMES.iter() {
        if let AnyState::Poly(st) = AnyState::from_group(g, &ShapeSpec::Polygon(3)) {
            let nb = st.generate_basis().len();
            for &(x, y) in [(-0.5, 0.1), (0.5, -0.5), (0.1, -0.5), (0.25, 0.5), (0.13, 0.21)].iter() {
                {
                    let mut b = st.generate_basis();
                    b[nb - 3].set_value(x);
                    b[nb - 2].set_value(y);
                }
                consumed += 1;
                let mut one_by_one: Vec<Aff> = vec![];
                let mut it = st.relative_positions();
                while let Some(t) = it.next() {
                    one_by_one.push(Aff::from_t2(&t));
                }
                let folded: Vec<Aff> = st.relative_positions().fold(vec![], |mut v, t| {
                    v.push(Aff::from_t2(&t));
                    v
                });
                let mut each: Vec<Aff> = vec![];
                st.relative_positions().for_each(|t| each.push(Aff::from_t2(&t)));
                let last = st.relative_positions().last().map(|t| Aff::from_t2(&t));
                let same = |a: &Vec<Aff>, b: &Vec<Aff>| a.len() == b.len() && a.iter().zip(b.iter()).all(|(p, q)| p.m == q.m && p.t[0].to_bits() == q.t[0].to_bits() && p.t[1].to_bits() == q.t[1].to_bits());
                let last_ok = match (&last, one_by_one.last()) {
                    (Some(a), Some(b)) => a.m == b.m && a.t == b.t,
                    (None, None) => true,
                    _ => false,
                };
                if !same(&one_by_one, &folded) || !same(&one_by_one, &each) || !last_ok || st.relative_positions().count() != one_by_one.len() {
                    run.fail(None, &format!("{}: the placements of site ({}, {}) differ with the way the list is consumed (one by one, fold, for_each, last, count)", g, x, y), json!({"engine": "consumption", "group": g, "x": x, "y": y}));
                }
            }
        }
    }
    run.set("placement_lists_consumed_in_five_ways", consumed);
    // groups described by operation strings in a setting with quarter and third translations
    let mut quarter = 0u64;
    {
        use packing::wallpaper::WallpaperGroup;
        use packing::{CrystalFamily, LineShape, PackedState};
        let op = |a: f64, b: f64, c: f64, d: f64, tx: f64, ty: f64| Aff { m: [[a, b], [c, d]], t: [tx, ty] };
        for (name, strs, ops) in [
            ("p2 with the origin off the two-fold axis", vec!["x,y", "-x+1/4,-y"], vec![op(1., 0., 0., 1., 0., 0.), op(-1., 0., 0., -1., 0.25, 0.)]),
            ("a glide by a third", vec!["x,y", "x+1/3,-y"], vec![op(1., 0., 0., 1., 0., 0.), op(1., 0., 0., -1., 1. / 3., 0.)]),
            ("p2 with the origin at (1/8, 3/8)", vec!["x,y", "-x+1/4,-y+3/4"], vec![op(1., 0., 0., 1., 0., 0.), op(-1., 0., 0., -1., 0.25, 0.75)]),
        ]
        .iter()
        {
            let wg = WallpaperGroup { name, family: CrystalFamily::Monoclinic, wyckoff_str: strs.clone() };
            if let Ok(st) = PackedState::from_group(LineShape::polygon(3).unwrap(), &wg) {
                let nb = st.generate_basis().len();
                for &(x, y, phi) in [(0.1, 0.2, 0.), (-0.37, 0.44, 1.1)].iter() {
                    {
                        let mut b = st.generate_basis();
                        b[nb - 3].set_value(x);
                        b[nb - 2].set_value(y);
                        b[nb - 1].set_value(phi);
                    }
                    quarter += 1;
                    let pl: Vec<Aff> = st.relative_positions().map(|t| Aff::from_t2(&t)).collect();
                    let rot = Aff::rot_trans(phi, [0., 0.]);
                    let ok = pl.len() == ops.len()
                        && pl.iter().zip(ops.iter()).all(|(a, o)| {
                            let want = o.apply([x, y]);
                            let lin = o.after(&rot);
                            (0..2).all(|r| (0..2).all(|c| (a.m[r][c] - lin.m[r][c]).abs() <= 1e-15)) && dist_to_int(a.t[0] - want[0]) <= 1e-12 && dist_to_int(a.t[1] - want[1]) <= 1e-12
                        });
                    if !ok {
                        run.fail(None, &format!("{} ({:?}): site ({}, {}, {}) does not yield the operations applied to the site", name, strs, x, y, phi), json!({"engine": "strings", "operations": strs, "x": x, "y": y, "phi": phi}));
                    }
                }
            }
        }
    }
    run.set("sites_of_groups_given_as_strings_with_quarter_translations", quarter);
    run.set("live_object_edits_compared", live_checks);
    run.set("evaluations", evals + live_checks);
    run.set("distinct_nontrivial", evals);
    run.set("placements_exactly_on_lower_face", edge);
    run.set("coordinate_values", coords.len() as u64);
    run.set("exhaustive", true);
    run.set("rule", "complete product: 7 groups x coordinate list squared (0, -0.0, +-1e-300, +-2^-60, +-1e-17, +-0.1, +-0.25, +-0.375, +-(1/2 -ulp), +-1/2, +-(1/2+ulp), +-0.75, +-1, +-1.5, +-7.25, +-(2-ulp); thorough adds a 40-point grid and 39 ulp steps either side of +-1/2) x 7 orientations, plus 6 lattice/2pi-shifted re-descriptions of every in-range site. Each evaluation is a distinct site; placements are matched one-to-one with an independent table of the group's operations; plus 17 single-parameter edits of a live object per (group, state kind), each compared bit for bit with a freshly read object");
    run.sample(json!({"group": "p2mg", "x": 0.5, "y": below_half, "phi": 0.3}));
    run.require(edge > 0, "no placement landed exactly on the cell face");
    run.finish()
}

// ------------------------------------------------------------------------------------------
// C13

fn lj(x: f64, y: f64, sigma: f64, epsilon: f64, cutoff: Option<f64>) -> LJ2 {
    LJ2 { position: Point2::new(x, y), sigma, epsilon, cutoff }
}

pub fn c13(tier: Tier) -> ! {
    let mut run = Run::new("C13", tier, "exploration");
    let sigmas = [0.5, 1., 1.275112, 1.4, 2.];
    let epss = [0.25, 1., 3.];
    let cutoffs = [None, Some(1.0), Some(2.5), Some(3.5)];
    let nladder = tier.pick(200, 1000);
    let dirs: Vec<P2> = (0..8).map(|k| {
        let a = 0.4 + k as f64 * PI / 4.;
        [a.cos(), a.sin()]
    }).collect();
    let motions: Vec<Aff> = vec![
        Aff::identity(),
        Aff::rot_trans(0.7, [0., 0.]),
        Aff::translation([10., -7.]),
        Aff::mirror_x(),
        Aff::rot_trans(2.1, [3., 4.]).after(&Aff::mirror_x()),
        Aff::rot_trans(PI, [-1e3, 1e3]),
    ];
    let mut evals = 0u64;
    let mut nontrivial = BTreeSet::new();
    let known_asym = |s1: f64, e1: f64, c1: Option<f64>, s2: f64, e2: f64, c2: Option<f64>| -> bool { s1 != s2 || e1 != e2 || c1 != c2 };
    // like particles: closed form, all clauses
    for &s in sigmas.iter() {
        for &e in epss.iter() {
            for &c in cutoffs.iter() {
                let mut rs: Vec<f64> = (0..nladder).map(|i| 0.5 * s * (12f64).powf(i as f64 / (nladder - 1) as f64)).collect();
                rs.push(2f64.powf(1. / 6.) * s);
                if let Some(cv) = c {
                    rs.push(cv * (1. - 2f64.powi(-52)));
                    rs.push(cv * (1. - 1e-9));
                    rs.push(cv);
                    rs.push(cv * (1. + 2f64.powi(-52)));
                    rs.push(cv * 1.5);
                }
                for &r in rs.iter() {
                    let want = lj_closed_form(s, e, c, r);
                    for (di, d) in dirs.iter().enumerate() {
                        let a = lj(0.3, -0.2, s, e, c);
                        let b = lj(0.3 + r * d[0], -0.2 + r * d[1], s, e, c);
                        // the realised distance (the positions are rounded)
                        let rr = ((b.position.x - a.position.x).powi(2) + (b.position.y - a.position.y).powi(2)).sqrt();
                        let want_rr = lj_closed_form(s, e, c, rr);
                        let near_cut = c.map(|cv| (rr - cv).abs() <= 4e-16 * cv).unwrap_or(false);
                        for (mi, m) in motions.iter().enumerate() {
                            if di > 1 && mi > 0 && tier == Tier::Quick {
                                continue;
                            }
                            evals += 1;
                            let ta = m.to_t2();
                            let am = &a * &ta;
                            let bm = &b * &ta;
                            let eab = am.energy(&bm);
                            let eba = bm.energy(&am);
                            let case = json!({"sigma": s, "epsilon": e, "cutoff": c, "r": f64_bits_json(r), "direction": di, "motion": mi});
                            // the same common motion applied from the left (`Transform2 * LJ2`, by
                            // reference and by value): the same particle, hence the same energy
                            let al = &ta * &a;
                            let bl = ta.clone() * b.clone();
                            for (moved, right) in [(&al, &am), (&bl, &bm)].iter() {
                                let dp = ((moved.position.x - right.position.x).powi(2) + (moved.position.y - right.position.y).powi(2)).sqrt();
                                if !(dp <= 1e-9 * (1. + norm(m.t))) || moved.sigma.to_bits() != right.sigma.to_bits() || moved.epsilon.to_bits() != right.epsilon.to_bits() || moved.cutoff.map(f64::to_bits) != right.cutoff.map(f64::to_bits) {
                                    run.fail(None, &format!("a particle moved by `Transform2 * LJ2` ({:?}) differs from the one moved by `LJ2 * Transform2` ({:?})", moved, right), case.clone());
                                }
                            }
                            // (identical particles have identical energies; where the two operators
                            // round the position differently the fields above decide)
                            let eab_left = al.energy(&bl);
                            if al == am && bl == bm && eab_left.to_bits() != eab.to_bits() && !(eab_left == 0. && eab == 0.) {
                                run.fail(None, &format!("common motion applied from the left: E={} but applied from the right E={}", eab_left, eab), case.clone());
                            }
                            if eab != eba && !((eab - eba).abs() <= 1e-12 * (1. + eab.abs())) {
                                run.fail(None, &format!("like particles: E(a,b)={} but E(b,a)={}", eab, eba), case.clone());
                            }
                            // steepness: a relative error of 1e-15*|x| in the moved distance
                            let mag = if mi == 0 { 1. } else { 1. + norm(m.t) };
                            let slope_tol = 1e-9 * (1. + want.abs()) + (lj_closed_form(s, e, None, rr * (1. - 4e-16 * mag)) - lj_closed_form(s, e, None, rr * (1. + 4e-16 * mag))).abs() * 4.;
                            if near_cut {
                                // either side of the cutoff is admissible at the last bit
                                if !(eab == 0. || (eab - want_rr).abs() <= slope_tol) && eab.abs() > 1e-9 {
                                    run.fail(None, &format!("at the cutoff: E={} (neither 0 nor continuous)", eab), case.clone());
                                }
                            } else if !((eab - want_rr).abs() <= slope_tol) {
                                run.fail(None, &format!("E={} but the shifted 12-6 law gives {}", eab, want_rr), case.clone());
                            } else if let Some(cv) = c {
                                if rr >= cv * (1. + 1e-12 * mag) && eab != 0. {
                                    run.fail(None, &format!("beyond the cutoff E={} (must be exactly 0)", eab), case.clone());
                                }
                            }
                            if c.is_none() && eab < -e - 1e-12 * e {
                                run.fail(None, &format!("E={} below the minimum -epsilon", eab), case.clone());
                            }
                            nontrivial.insert((s.to_bits(), e.to_bits(), c.map(|x| x.to_bits()), r.to_bits()));
                        }
                    }
                }
                if c.is_none() {
                    evals += 1;
                    let a = lj(0., 0., s, e, None);
                    let b = lj(2f64.powf(1. / 6.) * s, 0., s, e, None);
                    let m = a.energy(&b);
                    if (m + e).abs() > 1e-12 * e {
                        run.fail(None, &format!("minimum is {} at 2^(1/6) sigma, expected {}", m, -e), json!({"sigma": s, "epsilon": e}));
                    }
                }
            }
        }
    }
    run.sample(json!({"like": {"sigma": 1.4, "epsilon": 3., "cutoff": 2.5, "r": 2.5 * (1. - 2f64.powi(-52))}}));
    // the energy of a pair does not depend on which pair was evaluated before it: every ordered
    // pair (P, Q) of like-particle kinds, Q judged by the closed form right after P was evaluated
    let mut kinds: Vec<(f64, f64, Option<f64>)> = vec![];
    for &s in sigmas.iter() {
        for &e in epss.iter() {
            for &c in cutoffs.iter() {
                kinds.push((s, e, c));
            }
        }
    }
    let mut after_other = 0u64;
    for &(ps, pe, pc) in kinds.iter() {
        for &(qs, qe, qc) in kinds.iter() {
            if (ps, pe, pc) == (qs, qe, qc) {
                continue;
            }
            for &f in [0.97, 1.2, 1.9].iter() {
                let _ = lj(0., 0., ps, pe, pc).energy(&lj(1.1 * ps, 0., ps, pe, pc));
                let r = f * qs;
                let got = lj(0., 0., qs, qe, qc).energy(&lj(r, 0., qs, qe, qc));
                let want = lj_closed_form(qs, qe, qc, r);
                evals += 1;
                after_other += 1;
                if !((got - want).abs() <= 1e-9 * (1. + want.abs())) {
                    run.fail(None, &format!("E={} but the shifted 12-6 law gives {} when the pair is evaluated right after a pair of another kind", got, want), json!({"engine": "after", "before": {"sigma": ps, "epsilon": pe, "cutoff": pc}, "pair": {"sigma": qs, "epsilon": qe, "cutoff": qc}, "r": r}));
                }
            }
        }
    }
    run.set("like_pairs_evaluated_after_another_kind", after_other);
    // unlike particles: symmetry, invariance, zero beyond both cutoffs
    let mut unlike = 0u64;
    let mut first_pass: Vec<(LJ2, LJ2, f64)> = vec![];
    for &s1 in sigmas.iter() {
        for &s2 in sigmas.iter() {
            for &e1 in epss.iter() {
                for &e2 in epss.iter() {
                    for &c1 in cutoffs.iter() {
                        for &c2 in cutoffs.iter() {
                            if !known_asym(s1, e1, c1, s2, e2, c2) {
                                continue;
                            }
                            for k in 0..24 {
                                let r = 0.6 * s1.min(s2) * (10f64).powf(k as f64 / 23.);
                                evals += 1;
                                unlike += 1;
                                let a = lj(0.1, 0.2, s1, e1, c1);
                                let b = lj(0.1 + r * dirs[k % 8][0], 0.2 + r * dirs[k % 8][1], s2, e2, c2);
                                let eab = a.energy(&b);
                                let eba = b.energy(&a);
                                first_pass.push((a.clone(), b.clone(), eab));
                                let case = json!({"a": {"sigma": s1, "epsilon": e1, "cutoff": c1}, "b": {"sigma": s2, "epsilon": e2, "cutoff": c2}, "r": r});
                                if !((eab - eba).abs() <= 1e-9 * (1. + eab.abs().min(eba.abs()))) {
                                    run.fail(Some("unlike-particles-asymmetric"), &format!("unlike particles: E(a,b)={} but E(b,a)={}", eab, eba), case.clone());
                                }
                                let m = motions[1 + k % 5].to_t2();
                                let e2m = (&a * &m).energy(&(&b * &m));
                                let tol = 1e-9 * (1. + eab.abs()) + 1e-11 * (1. + norm(motions[1 + k % 5].t)) * eab.abs() * 12. / r;
                                if !((e2m - eab).abs() <= tol) {
                                    run.fail(None, &format!("not invariant under a common motion: {} vs {}", eab, e2m), case.clone());
                                }
                                if let (Some(x), Some(y)) = (c1, c2) {
                                    if r > x.max(y) * (1. + 1e-12) && (eab != 0. || eba != 0.) {
                                        run.fail(None, &format!("beyond both cutoffs E={}", eab), case.clone());
                                    }
                                }
                            }
                        }
                    }
                }
            }
        }
    }
    run.set("unlike_pair_evaluations", unlike);
    // a shifted potential is continuous: no jump anywhere on a fine ladder of distances, for
    // particles that differ in their cutoffs (and sigmas)
    let mut scanned = 0u64;
    for &(s1, c1, s2, c2) in [(1f64, Some(3f64), 1f64, Some(4f64)), (1., Some(2.), 1., Some(5.)), (1., Some(2.5), 1.4, Some(3.5)), (0.5, Some(1.), 2., Some(3.5)), (1., Some(3.), 1., None)].iter() {
        let top = 1.1 * c1.unwrap_or(0f64).max(c2.unwrap_or(0.)).max(4.);
        let n = 40_000;
        let mut prev: Option<(f64, f64)> = None;
        for i in 0..=n {
            let r = 1.05 * s1.max(s2) + (top - 1.05 * s1.max(s2)) * i as f64 / n as f64;
            let e = lj(0., 0., s1, 1., c1).energy(&lj(r, 0., s2, 2., c2));
            scanned += 1;
            evals += 1;
            if let Some((pr, pe)) = prev {
                // steepest the uncut law can be here, times the step, with a wide margin
                let slope = 4. * 2. * (12. * (s1.max(s2) / pr).powi(12) + 6. * (s1.max(s2) / pr).powi(6)) / pr;
                if (e - pe).abs() > 20. * slope * (r - pr) + 1e-12 {
                    run.fail(None, &format!("unlike particles: the energy jumps from {:e} at r = {} to {:e} at r = {} (a shifted potential is continuous)", pe, pr, e, r), json!({"engine": "continuity", "a": {"sigma": s1, "cutoff": c1}, "b": {"sigma": s2, "cutoff": c2}, "r": r}));
                    break;
                }
            }
            prev = Some((r, e));
        }
    }
    run.set("unlike_pair_distances_scanned_for_jumps", scanned);
    // the same unlike pairs again in the opposite order, and strided: the value of a pair is the
    // same whatever was evaluated before it
    let mut second_pass = 0u64;
    let n_first = first_pass.len();
    let orders: Vec<Vec<usize>> = vec![(0..n_first).rev().collect(), (0..n_first).map(|k| (k * 7919) % n_first).collect()];
    for (oi, order) in orders.iter().enumerate() {
        for &k in order.iter() {
            let (a, b, e1) = &first_pass[k];
            let e2 = a.energy(b);
            second_pass += 1;
            evals += 1;
            if e2.to_bits() != e1.to_bits() {
                run.fail(None, &format!("unlike particles: E(a,b)={} in one order of evaluation and {} in another (order {})", e1, e2, oi), json!({"engine": "order", "a": {"sigma": a.sigma, "epsilon": a.epsilon, "cutoff": a.cutoff}, "b": {"sigma": b.sigma, "epsilon": b.epsilon, "cutoff": b.cutoff}, "index": k}));
            }
        }
    }
    run.set("unlike_pairs_re_evaluated_in_other_orders", second_pass);
    // molecules: energy = sum over particle pairs
    let mols: Vec<LJShape2> = vec![
        LJShape2::circle(),
        LJShape2::from_trimer(0.637556, 120., 1.),
        LJShape2::from_trimer(0.7, 180., 1.5),
        LJShape2::from_trimer(1., 180., 2.),
        LJShape2::from_trimer(0.5, 60., 1.2),
    ];
    let mut mol_evals = 0u64;
    for (mi, mol) in mols.iter().enumerate() {
        for k in 0..64 {
            let rot = k as f64 * 0.37;
            let dist = 1.5 + (k % 16) as f64 * 0.35;
            let dir = k as f64 * 1.1;
            let t = Transform2::new(rot, (dist * dir.cos(), dist * dir.sin()));
            let other = mol.transform(&t);
            evals += 1;
            mol_evals += 1;
            let total = mol.energy(&other);
            let mut sum = 0.;
            for a in mol.items.iter() {
                for b in other.items.iter() {
                    sum += a.energy(b);
                }
            }
            if !((total - sum).abs() <= 1e-9 * (1. + sum.abs())) {
                run.fail(None, &format!("molecule energy {} is not the sum over particle pairs {}", total, sum), json!({"molecule": mi, "placement": k}));
            }
            // Shape::score is the same sum
            if let Some(sc) = mol.score(&other) {
                if !((sc - sum).abs() <= 1e-9 * (1. + sum.abs())) {
                    run.fail(None, &format!("Shape::score {} differs from the pair sum {}", sc, sum), json!({"molecule": mi, "placement": k}));
                }
            }
            // both molecules moved far from the origin by an exactly representable translation:
            // still the pair sum, and the same energy as near the origin
            if dist > 2. {
                let far = Transform2::new(0., (65536., -65536.));
                let (m2, o2) = (mol.transform(&far), other.transform(&far));
                let e_far = m2.energy(&o2);
                let mut sum_far = 0.;
                for a in m2.items.iter() {
                    for b in o2.items.iter() {
                        sum_far += a.energy(b);
                    }
                }
                evals += 1;
                mol_evals += 1;
                if !((e_far - sum_far).abs() <= 1e-9 * (1. + sum_far.abs())) || !((e_far - total).abs() <= 1e-8 * (1. + total.abs())) {
                    run.fail(None, &format!("two molecules moved together by (65536, -65536): energy {} (pair sum there {}), near the origin {}", e_far, sum_far, total), json!({"molecule": mi, "placement": k, "engine": "far"}));
                }
            }
            // transformed particles keep sigma, epsilon, cutoff
            for (a, b) in mol.items.iter().zip(other.items.iter()) {
                if a.sigma != b.sigma || a.epsilon != b.epsilon || a.cutoff != b.cutoff {
                    run.fail(None, "transform changed sigma/epsilon/cutoff", json!({"molecule": mi, "placement": k}));
                }
            }
        }
    }
    // two molecules of different geometry, both argument orders (custom molecules through the
    // public fields: a single particle, a 7-particle rod, an L of unlike particles)
    let mut zoo: Vec<LJShape2> = mols.clone();
    zoo.push(LJShape2 { name: "single".into(), items: vec![lj(0., 0., 1., 1., Some(2.5))] });
    zoo.push(LJShape2 { name: "rod".into(), items: (0..7).map(|k| lj(k as f64 * 1.1 - 3.3, 0., 1., 1., Some(2.5))).collect() });
    zoo.push(LJShape2 { name: "L".into(), items: vec![lj(0., 0., 1.2, 2., Some(3.)), lj(1.3, 0., 0.9, 0.5, Some(3.)), lj(0., 1.6, 1., 1., None)] });
    // (5, 9 and 11 particles: with the rod, pair counts 25 .. 121, odd and even, above and below any
    // block size a sum may be split into)
    zoo.push(LJShape2 { name: "ring5".into(), items: (0..5).map(|k| lj((k as f64 * 1.2566).cos() * 1.1, (k as f64 * 1.2566).sin() * 1.1, 1., 1., Some(2.5))).collect() });
    zoo.push(LJShape2 { name: "grid9".into(), items: (0..9).map(|k| lj((k % 3) as f64 * 1.1 - 1.1, (k / 3) as f64 * 1.1 - 1.1, 1., 1., Some(2.5))).collect() });
    zoo.push(LJShape2 { name: "chain11".into(), items: (0..11).map(|k| lj(k as f64 * 1.05 - 5.25, 0.2 * (k % 2) as f64, 1., 1., None)).collect() });
    for (ia, a) in zoo.iter().enumerate() {
        for (ib, b) in zoo.iter().enumerate() {
            // (a molecule against a placed copy of itself only for the larger ones: the small ones
            // are covered above)
            if ia == ib && a.items.len() < 5 {
                continue;
            }
            for k in 0..48 {
                let rot = k as f64 * 0.53;
                let dist = 0.9 + (k % 12) as f64 * 0.55;
                let dir = k as f64 * 0.77;
                let t = Transform2::new(rot, (dist * dir.cos(), dist * dir.sin()));
                let other = b.transform(&t);
                // the pair law is defined for r > 0 only
                if a.items.iter().any(|x| other.items.iter().any(|y| (x.position - y.position).norm() < 1e-3)) {
                    continue;
                }
                evals += 1;
                mol_evals += 1;
                let total = a.energy(&other);
                let back = other.energy(a);
                let mut sum = 0.;
                for x in a.items.iter() {
                    for y in other.items.iter() {
                        sum += x.energy(y);
                    }
                }
                let case = json!({"molecule_a": ia, "molecule_b": ib, "placement": k});
                if !((total - sum).abs() <= 1e-9 * (1. + sum.abs())) {
                    run.fail(None, &format!("energy of two different molecules {} is not the sum over particle pairs {}", total, sum), case.clone());
                }
                if !((total - back).abs() <= 1e-9 * (1. + sum.abs())) {
                    run.fail(None, &format!("energy of two different molecules depends on the argument order: {} vs {}", total, back), case);
                }
            }
        }
    }
    run.set("molecule_evaluations", mol_evals);
    // trimer construction: sigma = 2 radius, cutoff set
    for &(r, a, d) in [(0.637556, 120., 1.), (2., 180., 0.5), (0.3, 60., 2.)].iter() {
        evals += 1;
        let t = LJShape2::from_trimer(r, a, d);
        if t.items.len() != 3 || t.items[0].sigma != 2. || t.items[1].sigma != 2. * r || t.items[2].sigma != 2. * r || t.items.iter().any(|i| i.cutoff.is_none()) {
            run.fail(None, "trimer construction: sigma must be twice the radius with a cutoff set", json!({"radius": r, "angle": a, "distance": d}));
        }
    }
    run.set("evaluations", evals);
    run.set("distinct_nontrivial", nontrivial.len() as u64 + unlike + mol_evals);
    run.set("exhaustive", true);
    run.set("rule", "complete product: sigma {0.5,1,1.275112,1.4,2} x epsilon {0.25,1,3} x cutoff {none,1,2.5,3.5} x r on a geometric ladder 0.5..6 sigma plus 2^(1/6) sigma and cutoff +-ulp x 8 directions x 6 rigid motions/reflections (like particles, closed form); all unlike (sigma,epsilon,cutoff) pairs x 24 distances in both argument orders; 5 molecules x 64 relative placements; every ordered pair of 8 different molecules (incl. a single particle, a rod, an L of unlike particles) x 48 placements. distinct_nontrivial counts distinct (sigma, epsilon, cutoff, r) tuples plus unlike-pair and molecule cases");
    run.assume("for unlike particles the property fixes no mixing rule; only symmetry, motion invariance and zero beyond both cutoffs are required of them");
    run.finish()
}

// ------------------------------------------------------------------------------------------
// C12

#[derive(Clone)]
enum TestShape {
    Poly(LineShape),
    Mol(MolecularShape2),
}

impl TestShape {
    fn body(&self) -> Body {
        match self {
            TestShape::Poly(s) => body_from_json(&serde_json::to_value(s).unwrap()),
            TestShape::Mol(s) => body_from_json(&serde_json::to_value(s).unwrap()),
        }
    }
    /// The shape after a round trip through its JSON text.
    fn read_back(&self) -> TestShape {
        match self {
            TestShape::Poly(s) => TestShape::Poly(serde_json::from_str(&serde_json::to_string(s).unwrap()).unwrap_or_else(|e| machinery_error(&format!("a shape cannot be read back: {}", e)))),
            TestShape::Mol(s) => TestShape::Mol(serde_json::from_str(&serde_json::to_string(s).unwrap()).unwrap_or_else(|e| machinery_error(&format!("a shape cannot be read back: {}", e)))),
        }
    }
    /// The answer for two placed copies that each went through their JSON text.
    fn intersects_read_back(&self, a: &Aff, b: &Aff) -> bool {
        let pa = TestShape::placed(self, a).read_back();
        let pb = TestShape::placed(self, b).read_back();
        match (&pa, &pb) {
            (TestShape::Poly(x), TestShape::Poly(y)) => x.intersects(y),
            (TestShape::Mol(x), TestShape::Mol(y)) => x.intersects(y),
            _ => unreachable!(),
        }
    }
    fn placed(&self, a: &Aff) -> TestShape {
        match self {
            TestShape::Poly(s) => TestShape::Poly(s.transform(&a.to_t2())),
            TestShape::Mol(s) => TestShape::Mol(s.transform(&a.to_t2())),
        }
    }
    fn intersects(&self, a: &Aff, b: &Aff) -> bool {
        match self {
            TestShape::Poly(s) => s.transform(&a.to_t2()).intersects(&s.transform(&b.to_t2())),
            TestShape::Mol(s) => s.transform(&a.to_t2()).intersects(&s.transform(&b.to_t2())),
        }
    }
}

pub fn c12_shapes(tier: Tier) -> Vec<(String, ShapeSpec)> {
    let mut v: Vec<(String, ShapeSpec)> = vec![];
    for n in 3..=tier.pick(8, 12) {
        v.push((format!("polygon{}", n), ShapeSpec::Polygon(n)));
    }
    if tier == Tier::Thorough {
        for radii in [vec![1., 0.95, 1., 0.95, 1., 0.95, 1., 0.95], vec![3., 2.5, 3.], vec![0.3, 0.25, 0.3, 0.25]].iter() {
            v.push((format!("radial{:?}", radii), ShapeSpec::Radial(radii.clone())));
        }
        for &(r, a, d) in [(0.637556, 60., 1.), (0.4, 90., 1.2), (1.2, 150., 2.1)].iter() {
            v.push((format!("trimer({},{},{})", r, a, d), ShapeSpec::Trimer(r, a, d)));
        }
    }
    for radii in [vec![1., 0.8, 1.], vec![1., 0.6, 1., 0.6], vec![0.5, 1., 0.5, 1.], vec![1., 0.9, 0.8, 0.9], vec![1., 0.7, 1., 0.7, 1., 0.7], vec![2., 1.5, 2., 1.5, 2.], vec![0.8, 1., 1.]].iter() {
        v.push((format!("radial{:?}", radii), ShapeSpec::Radial(radii.clone())));
    }
    v.push(("circle".into(), ShapeSpec::Circle));
    // (the last three are degenerate but accepted by the command line: coinciding outer discs, all
    // three discs concentric, outer discs that contain the central one)
    for &(r, a, d) in [(0.637556, 120., 1.), (0.7, 180., 1.5), (1., 180., 2.), (0.5, 60., 1.2), (0.7, 0., 1.), (1., 60., 0.), (2.5, 120., 1.)].iter() {
        v.push((format!("trimer({},{},{})", r, a, d), ShapeSpec::Trimer(r, a, d)));
    }
    v
}

fn to_test_shape(s: &ShapeSpec) -> TestShape {
    match s {
        ShapeSpec::Polygon(n) => TestShape::Poly(LineShape::polygon(*n).unwrap()),
        ShapeSpec::Radial(r) => TestShape::Poly(LineShape::from_radial("Radial", r.clone()).unwrap()),
        ShapeSpec::Circle => TestShape::Mol(MolecularShape2::circle()),
        ShapeSpec::Trimer(r, a, d) => TestShape::Mol(MolecularShape2::from_trimer(*r, *a, *d)),
        _ => panic!("not a hard shape"),
    }
}

pub const BAND: f64 = 1e-9;

pub fn c12(tier: Tier) -> ! {
    let mut run = Run::new("C12", tier, "exploration");
    let shapes = c12_shapes(tier);
    let grid_n: i64 = tier.pick(20, 60);
    let mut jobs = vec![];
    for (name, spec) in shapes.iter() {
        let body = spec.body();
        if !body.is_convex() {
            machinery_error(&format!("C12 shape {} is not convex", name));
        }
        let nsides = match &body {
            Body::Poly(v) => v.len(),
            _ => 6,
        };
        let mut rots = vec![0., PI / nsides as f64, 2. * PI / nsides as f64, PI / 2., PI, 0.3217505543966422, 1.0, 2.7182818];
        if tier == Tier::Thorough {
            rots.extend(vec![3. * PI / nsides as f64, PI / 3., 2. * PI / 3., 3. * PI / 2., 1e-9, PI - 1e-9, 0.1, 4.4, 5.9, 1e-12, 1e-7, 1e-6, 3e-6, 1e-5, 3e-5, 1e-4, 1e-3]);
        }
        rots.dedup();
        for (ri, rot) in rots.iter().enumerate() {
            // 0: proper rotation; 1: mirror in the y axis, then rotated; 2, 3: the mirrors in the
            // diagonals x = y and x = -y ("y, x" and "-y, -x": linear part with an exactly zero
            // diagonal), then rotated; 4: the mirror in the x axis
            for mirror in 0..5u8 {
                if mirror >= 2 && ri > tier.pick(1, 5) {
                    continue;
                }
                jobs.push((name.clone(), spec.clone(), ri, *rot, mirror));
            }
        }
    }
    let common: Vec<Aff> = vec![
        Aff::identity(),
        Aff::rot_trans(0.7, [0., 0.]),
        Aff::mirror_x(),
        Aff::translation([10., -7.]),
        Aff::rot_trans(0.7, [10., -7.]).after(&Aff::mirror_x()),
        Aff { m: [[0., 1.], [1., 0.]], t: [0.5, 0.] },
        // far from the origin (an exact power of two, so the placement itself is carried over
        // exactly): the answer must not depend on where the pair sits
        Aff::translation([131072., 131072.]),
    ];
    let results = par_map(&jobs, |_, (name, spec, _ri, rot, mirror)| {
        let shape = to_test_shape(spec);
        let body = shape.body();
        let r = body.enclosing_radius();
        let second_lin = match *mirror {
            0 => Aff::rot_trans(*rot, [0., 0.]),
            1 => Aff::rot_trans(*rot, [0., 0.]).after(&Aff::mirror_x()),
            2 if *rot == 0. => Aff { m: [[0., 1.], [1., 0.]], t: [0., 0.] },
            2 => Aff::rot_trans(*rot, [0., 0.]).after(&Aff { m: [[0., 1.], [1., 0.]], t: [0., 0.] }),
            3 if *rot == 0. => Aff { m: [[0., -1.], [-1., 0.]], t: [0., 0.] },
            3 => Aff::rot_trans(*rot, [0., 0.]).after(&Aff { m: [[0., -1.], [-1., 0.]], t: [0., 0.] }),
            // the mirror in the x axis ("x, -y"), exactly
            _ if *rot == 0. => Aff { m: [[1., 0.], [0., -1.]], t: [0., 0.] },
            _ => Aff::rot_trans(*rot, [0., 0.]).after(&Aff { m: [[1., 0.], [0., -1.]], t: [0., 0.] }),
        };
        // translations: Cartesian grid + aligned set
        let mut trans: Vec<P2> = vec![];
        for i in -grid_n..=grid_n {
            for j in -grid_n..=grid_n {
                trans.push([2.2 * r * i as f64 / grid_n as f64, 2.2 * r * j as f64 / grid_n as f64]);
            }
        }
        let pts_a = body.points();
        let pts_b: Vec<P2> = pts_a.iter().map(|p| second_lin.apply(*p)).collect();
        let mut aligned: Vec<P2> = vec![];
        // vertex of B onto vertex of A, and slid along A's edges by k/8
        for (ia, pa) in pts_a.iter().enumerate() {
            let pa_next = pts_a[(ia + 1) % pts_a.len()];
            for pb in pts_b.iter() {
                for k in 0..=8 {
                    let on_edge = add(*pa, scale(sub(pa_next, *pa), k as f64 / 8.));
                    aligned.push(sub(on_edge, *pb));
                }
            }
        }
        // edge vectors and vertex-to-vertex vectors of A in eighths, coincident copy
        for (ia, pa) in pts_a.iter().enumerate() {
            for (ib, pb) in pts_a.iter().enumerate() {
                if ia == ib {
                    continue;
                }
                for k in 0..=16 {
                    // k <= 8: edges/diagonals overlapping collinearly; k > 8: collinear with a gap
                    aligned.push(scale(sub(*pb, *pa), k as f64 / 8.));
                }
            }
        }
        if let Body::Discs(d) = &body {
            // discs: exactly touching placements for every disc pair in 16 directions
            for (c1, r1) in d.iter() {
                for (c2, r2) in d.iter() {
                    for k in 0..16 {
                        let a = k as f64 * PI / 8. + 0.1;
                        let dir = [a.cos(), a.sin()];
                        let c2m = second_lin.apply(*c2);
                        aligned.push(sub(add(*c1, scale(dir, r1 + r2)), c2m));
                    }
                }
            }
        }
        aligned.push([0., 0.]);
        let n_aligned = aligned.len();
        trans.extend(aligned);
        let mut evals = 0u64;
        let (mut n_over, mut n_sep, mut n_band) = (0u64, 0u64, 0u64);
        let mut band_yes = 0u64;
        let mut fails: Vec<(Option<&'static str>, String, Value)> = vec![];
        let mut hist: std::collections::BTreeMap<String, u64> = Default::default();
        for (ti, t0) in trans.iter().enumerate() {
            // shifted variants along the direction to the centre (a proxy for the contact normal)
            let l = norm(*t0);
            let dir = if l > 0. { scale(*t0, 1. / l) } else { [1., 0.] };
            let shifts: &[f64] = if ti >= trans.len() - n_aligned { &[0., 0.5e-9, -0.5e-9, 2e-9, -2e-9] } else { &[0.] };
            for sh in shifts.iter() {
                let t = add(*t0, scale(dir, *sh));
                let b_aff = second_lin.shifted(t);
                let d = depth(&body, &body.transformed(&b_aff));
                let class = if d > BAND { 1 } else if d < -BAND { -1 } else { 0 };
                match class {
                    1 => n_over += 1,
                    -1 => n_sep += 1,
                    _ => n_band += 1,
                }
                for (ci, c) in common.iter().enumerate() {
                    if ci > 0 && tier == Tier::Quick && ti % 7 != 0 && ti < trans.len() - n_aligned {
                        continue;
                    }
                    let a1 = c.after(&Aff::identity());
                    let b1 = c.after(&b_aff);
                    for &swap in [false, true].iter() {
                        evals += 1;
                        let ans = if swap { shape.intersects(&b1, &a1) } else { shape.intersects(&a1, &b1) };
                        if class == 0 {
                            if ans {
                                band_yes += 1;
                            }
                            continue;
                        }
                        if ans != (class == 1) {
                            let decade = d.abs().log10().floor() as i32;
                            *hist.entry(format!("{} 1e{}", if class == 1 { "missed-overlap" } else { "false-yes" }, decade)).or_insert(0) += 1;
                        }
                        if ans != (class == 1) && d.abs() > 0.05 && std::env::var("PVX_DEBUG").map(|v| (v == "miss") == (class == 1)).unwrap_or(false) && hist.len() < 4 {
                            eprintln!("DEBUG {} rot={} mirror={} t={:?} swap={} common={} depth={} ans={}", name, rot, mirror, t, swap, ci, d, ans);
                        }
                        if ans != (class == 1) && fails.len() < 4 {
                            let what = if class == 1 {
                                format!("{}: copies overlap by {:e} but intersects() says no (swap={}, common motion {})", name, d, swap, ci)
                            } else {
                                format!("{}: copies are separated by {:e} but intersects() says yes (swap={}, common motion {})", name, -d, swap, ci)
                            };
                            fails.push((None, what, json!({"shape": name, "rotation": rot, "mirror": mirror, "translation": [f64_bits_json(t[0]), f64_bits_json(t[1])], "swap": swap, "common_motion": ci, "oracle_depth": d})));
                        }
                    }
                }
            }
        }
        (evals, n_over, n_sep, n_band, band_yes, fails, hist)
    });
    let (mut evals, mut over, mut sep, mut band, mut band_yes) = (0u64, 0u64, 0u64, 0u64, 0u64);
    let mut hist_all: std::collections::BTreeMap<String, u64> = Default::default();
    for (e, o, s, b, by, fails, hist) in results {
        for (k, v) in hist {
            *hist_all.entry(k).or_insert(0) += v;
        }
        evals += e;
        over += o;
        sep += s;
        band += b;
        band_yes += by;
        for (k, w, c) in fails {
            run.fail(k, &w, c);
        }
    }
    // copies turned by an angle within 1e-7 of a multiple of a right angle, placed through the
    // crate's own constructor (angle, position): contacts deeper or wider than the tolerance
    // keep their answer
    let mut near_axis = 0u64;
    for (name, spec) in shapes.iter() {
        let shape = to_test_shape(spec);
        let body = shape.body();
        let r = body.enclosing_radius();
        for &base in [0., PI / 2., PI].iter() {
            for &eps in [5e-8, -8e-8, 1.1e-7].iter() {
                let rot = base + eps;
                let lin = Aff::rot_trans(rot, [0., 0.]);
                for k in 0..24 {
                    let dir = [(0.3 + k as f64 * PI / 12.).cos(), (0.3 + k as f64 * PI / 12.).sin()];
                    // bisect the touching distance along this direction with the oracle
                    let (mut lo, mut hi) = (0., 2.2 * r);
                    for _ in 0..60 {
                        let mid = 0.5 * (lo + hi);
                        if depth(&body, &body.transformed(&lin.shifted(scale(dir, mid)))) > 0. {
                            lo = mid;
                        } else {
                            hi = mid;
                        }
                    }
                    for &off in [-6e-8, -2e-8, 2e-8, 6e-8].iter() {
                        let t = scale(dir, hi + off);
                        let d = depth(&body, &body.transformed(&lin.shifted(t)));
                        if d.abs() <= 4. * BAND {
                            continue;
                        }
                        near_axis += 1;
                        let tb = Transform2::new(rot, (t[0], t[1]));
                        let ans = match &shape {
                            TestShape::Poly(s) => s.intersects(&s.transform(&tb)),
                            TestShape::Mol(s) => s.intersects(&s.transform(&tb)),
                        };
                        if ans != (d > 0.) {
                            run.fail(None, &format!("{}: a copy turned by {:e} and moved by ({}, {}) (built from angle and position) {} the first by {:e} but intersects() says {}", name, rot, t[0], t[1], if d > 0. { "overlaps" } else { "clears" }, d.abs(), if ans { "yes" } else { "no" }), json!({"engine": "constructor", "shape": name, "angle": rot, "translation": [t[0], t[1]], "oracle_depth": d}));
                        }
                    }
                }
            }
        }
    }
    run.set("placements_built_from_angles_next_to_an_axis", near_axis);
    // depth-2 histories: every ordered pair of shapes (A, B); on a fresh thread A answers a few
    // placements, then B answers placements around its contact distance, judged by the oracle
    let mut pair_jobs: Vec<(usize, usize)> = vec![];
    for a in 0..shapes.len() {
        for b in 0..shapes.len() {
            if a != b {
                pair_jobs.push((a, b));
            }
        }
    }
    let pair_res = par_map(&pair_jobs, |_, &(ia, ib)| {
        let sa = to_test_shape(&shapes[ia].1);
        let sb = to_test_shape(&shapes[ib].1);
        let body = sb.body();
        let r = body.enclosing_radius();
        std::thread::scope(|sc| {
            sc.spawn(|| {
                let ra = sa.body().enclosing_radius();
                for k in 0..4 {
                    let _ = sa.intersects(&Aff::identity(), &Aff::rot_trans(0.4 * k as f64, [0.6 * ra * k as f64, 0.3 * ra]));
                }
                let mut n = 0u64;
                let mut bad: Vec<(String, Value)> = vec![];
                for k in 0..16 {
                    let ang = 0.2 + k as f64 * PI / 8.;
                    for &f in [0.4, 0.9, 1.3, 1.6, 1.8, 1.95, 2.05].iter() {
                        for &rot in [0., 0.7, PI].iter() {
                            let b_aff = Aff::rot_trans(rot, [f * r * ang.cos(), f * r * ang.sin()]);
                            let d = depth(&body, &body.transformed(&b_aff));
                            if d.abs() <= BAND {
                                continue;
                            }
                            n += 1;
                            let ans = sb.intersects(&Aff::identity(), &b_aff);
                            if ans != (d > 0.) && bad.len() < 2 {
                                bad.push((
                                    format!("{} right after {} answered on the same thread: copies {} by {:e} but intersects() says {}", shapes[ib].0, shapes[ia].0, if d > 0. { "overlap" } else { "are separated" }, d.abs(), if ans { "yes" } else { "no" }),
                                    json!({"engine": "shape-pair", "first": shapes[ia].0, "second": shapes[ib].0, "rotation": rot, "translation": [b_aff.t[0], b_aff.t[1]], "oracle_depth": d}),
                                ));
                            }
                        }
                    }
                }
                (n, bad)
            })
            .join()
            .unwrap_or_else(|_| machinery_error("a pair evaluation panicked"))
        })
    });
    let mut pair_evals = 0u64;
    for (n, bad) in pair_res {
        pair_evals += n;
        for (w, c) in bad {
            run.fail(None, &w, c);
        }
    }
    // shapes that were written out and read back - the shape alone before it is placed, and the
    // two placed copies - answer as exact geometry says (placements at least 1e-6 clear of
    // contact, so the last digits a text round trip may move do not matter)
    let mut rb_evals = 0u64;
    for (name, spec) in shapes.iter() {
        let s = to_test_shape(spec);
        let rb = s.read_back();
        let body = s.body();
        let r = body.enclosing_radius();
        for k in 0..16 {
            let ang = 0.2 + k as f64 * PI / 8.;
            for &f in [0.0, 0.4, 0.9, 1.3, 1.6, 1.8, 1.95, 2.05, 2.5].iter() {
                for &rot in [0., 0.7, PI].iter() {
                    for &mirror in [false, true].iter() {
                        let mut b_aff = Aff::rot_trans(rot, [f * r * ang.cos(), f * r * ang.sin()]);
                        if mirror {
                            b_aff = b_aff.after(&Aff::mirror_x());
                        }
                        let a_aff = Aff::rot_trans(0.3, [0.25, -0.125]);
                        let b_aff = a_aff.after(&b_aff);
                        let d = depth(&body.transformed(&a_aff), &body.transformed(&b_aff));
                        if d.abs() <= 1e-6 {
                            continue;
                        }
                        rb_evals += 1;
                        let first = rb.intersects(&a_aff, &b_aff);
                        let second = s.intersects_read_back(&a_aff, &b_aff);
                        for (what, ans) in [("a shape read back from its JSON text and then placed", first), ("two placed copies read back from their JSON text", second)].iter() {
                            if *ans != (d > 0.) {
                                run.fail(None, &format!("{}: {}: the copies {} by {:e} but intersects() says {}", name, what, if d > 0. { "overlap" } else { "are separated" }, d.abs(), ans),
                                    json!({"engine": "read-back", "shape": name, "rotation": rot, "mirror": mirror, "k": k, "f": f, "oracle_depth": d}));
                            }
                        }
                    }
                }
            }
        }
    }
    run.set("placements_answered_by_shapes_read_back_from_json", rb_evals);
    run.set("ordered_shape_pairs_answered_on_one_thread", pair_jobs.len() as u64);
    run.set("placements_judged_after_another_shape", pair_evals);
    run.set("evaluations", evals + pair_evals);
    run.set("distinct_nontrivial", over + sep);
    run.set("placements_overlapping", over);
    run.set("placements_separated", sep);
    run.set("placements_in_tolerance_band", band);
    run.set("band_answers_yes", band_yes);
    run.set("wrong_answers_by_depth_decade", json!(hist_all));
    println!("wrong answers by depth decade: {:?}", hist_all);
    run.set("exhaustive", true);
    run.set("rule", "complete product: 18 shapes (n-gons 3..8, 7 convex radial polygons incl. ones whose first vertex is not the farthest, circle, 4 trimers) x 8 rotations (0, pi/n, 2pi/n, pi/2, pi, 3 generic) x mirror x translations {Cartesian grid over [-2.2R,2.2R]^2, aligned set (every vertex of B on every vertex of A and on eighths of every edge of A, eighths of every edge/diagonal vector, touching discs, coincident), each aligned one also shifted by +-0.5e-9 and +-2e-9} x argument order x 5 common motions. Non-trivial = placements whose separating-axis/disc-distance depth is outside the +-1e-9 band (the predicate's answer is prescribed there)");
    run.sample(json!({"shape": "polygon4", "rotation": 0., "mirror": false, "translation": [1.0, 1.0], "note": "congruent squares displaced along the diagonal: every boundary crossing is at a vertex"}));
    run.require(over > 0 && sep > 0 && band > 0, "all three placement classes must occur");
    run.finish()
}

// ------------------------------------------------------------------------------------------
// C02

pub fn c02_shapes(tier: Tier) -> Vec<ShapeSpec> {
    let mut v = vec![];
    for n in (3..=12).chain(vec![24, 100].into_iter()) {
        v.push(ShapeSpec::Polygon(n));
    }
    // radial polygons with radii from {0.5, 1, 2}^n
    let vals = [0.5, 1., 2.];
    for n in 3..=tier.pick(4usize, 5usize) {
        let total = 3usize.pow(n as u32);
        for mut code in 0..total {
            let mut r = vec![];
            for _ in 0..n {
                r.push(vals[code % 3]);
                code /= 3;
            }
            v.push(ShapeSpec::Radial(r));
        }
    }
    v.push(ShapeSpec::Circle);
    let rs: Vec<f64> = tier.pick(vec![0.2, 0.4, 0.637556, 0.7, 1., 1.5], vec![0.1, 0.2, 0.3, 0.4, 0.5, 0.637556, 0.7, 0.85, 1., 1.25, 1.5, 2.]);
    let angs: Vec<f64> = tier.pick(vec![30., 60., 90., 120., 150., 180.], (1..=12).map(|k| 15. * k as f64).collect());
    let ds: Vec<f64> = tier.pick(vec![0.3, 0.6, 1., 1.5, 2., 2.5], vec![0.15, 0.3, 0.45, 0.6, 0.8, 1., 1.25, 1.5, 1.75, 2., 2.5, 3.]);
    for &r in rs.iter() {
        for &a in angs.iter() {
            for &d in ds.iter() {
                v.push(ShapeSpec::Trimer(r, a, d));
            }
        }
    }
    v.push(ShapeSpec::Trimer(0.3, 120., 0.5));
    v.push(ShapeSpec::Trimer(1., 60., 0.8));
    // small discs sitting deep in the central one (more than half inside) but apart from each other:
    // the lens of such a pair is a major segment of the small disc
    v.push(ShapeSpec::Trimer(0.5, 180., 0.7));
    v.push(ShapeSpec::Trimer(0.4, 180., 0.7));
    v.push(ShapeSpec::Trimer(0.3, 150., 0.75));
    v.push(ShapeSpec::Trimer(0.5, 120., 0.));
    v
}

/// Known-finding predicate for the trimer area: the pairwise inclusion-exclusion formula is
/// only valid when no three discs share a point and no disc contains another.
fn trimer_formula_invalid(body: &Body) -> bool {
    if let Body::Discs(d) = body {
        for i in 0..d.len() {
            for j in 0..d.len() {
                if i != j {
                    let dist = norm(sub(d[i].0, d[j].0));
                    if dist + d[i].1.min(d[j].1) <= d[i].1.max(d[j].1) + 1e-12 {
                        return true;
                    }
                }
            }
        }
        // a common point of three discs: pairwise lens areas over-count exactly then
        if d.len() >= 3 {
            let pair: f64 = (0..d.len()).flat_map(|i| (i + 1..d.len()).map(move |j| (i, j))).map(|(i, j)| {
                let two = [d[i], d[j]];
                d[i].1 * d[i].1 * PI + d[j].1 * d[j].1 * PI - disc_union_area(&two)
            }).sum();
            let total: f64 = d.iter().map(|x| PI * x.1 * x.1).sum();
            let union = disc_union_area(d);
            return (total - pair - union).abs() > 1e-9;
        }
    }
    false
}

pub fn c02(tier: Tier) -> ! {
    let mut run = Run::new("C02", tier, "exploration");
    let shapes = c02_shapes(tier);
    let lengths = [0.5, 1., 3.7, 8., 100.];
    let ratios = [1., 0.73, 0.34, 0.1, 1.6];
    let angles = [PI / 2., 1.3, PI / 3., PI / 6.];
    let results = par_map(&shapes, |_, spec| {
        let mut evals = 0u64;
        let mut valid_states = 0u64;
        let mut fails: Vec<(Option<&'static str>, String, Value)> = vec![];
        let body = spec.body();
        let sj = spec.json();
        let want_area = body.area();
        let formula_invalid = trimer_formula_invalid(&body);
        let key = if formula_invalid { Some("trimer-area-multiple-overlap") } else { None };
        // shape area
        let got_area = match to_test_shape(spec) {
            TestShape::Poly(s) => s.area(),
            TestShape::Mol(s) => s.area(),
        };
        evals += 1;
        // polygon area: the crate's shapes are star-shaped about the origin by construction,
        // shoelace is exact for them
        // 1e-8: the lens formula of two discs loses half its digits at exact tangency (acos of
        // a value one ulp below 1), a relative error of ~1e-9 in the area of such trimers that is
        // still "floating-point accuracy" of a correct formula
        let area_ok = (got_area - want_area).abs() <= 1e-8 * want_area.abs().max(1e-300);
        if !area_ok && fails.len() < 3 {
            fails.push((key, format!("{}: area() = {} but the true area is {}", spec.label(), got_area, want_area), json!({"shape": spec.label()})));
        }
        for g in GROUP_NAMES.iter() {
            let fam = ita_family(g);
            let tpl = StateTemplate::new(g, &sj);
            let n = ita_ops(g).len() as f64;
            for &l in lengths.iter() {
                for &r in ratios.iter() {
                    for &th in angles.iter() {
                        if fam != "Monoclinic" && th != PI / 2. {
                            continue;
                        }
                        let p = Params { length: l, ratio: r, angle: th, x: 0.1, y: 0.2, phi: 0.3 };
                        let st = match AnyState::from_json(&tpl.with(&p)) {
                            Ok(s) => s,
                            Err(e) => machinery_error(&format!("state does not deserialise: {}", e)),
                        };
                        evals += 1;
                        let lat = p.lattice();
                        if let Some(score) = st.score() {
                            valid_states += 1;
                            if st.cartesian().len() as f64 != n && fails.len() < 3 {
                                fails.push((key, format!("{} {}: a score is reported for a cell that holds {} placed copies where the group has {}", g, spec.label(), st.cartesian().len(), n), json!({"group": g, "shape": spec.label(), "params": p.json()})));
                            }
                            let want = n * want_area / lat.area();
                            let case = json!({"group": g, "shape": spec.label(), "params": p.json(), "score": score, "true_fraction": want});
                            if !(score.is_finite()) || !((score - want).abs() <= 1e-8 * want.abs()) {
                                if fails.len() < 3 {
                                    fails.push((key, format!("{} {}: score {} but copies x area / cell area = {}", g, spec.label(), score, want), case.clone()));
                                }
                            } else if !(score > 0. && score <= 1. + 1e-9) {
                                // a correct fraction above 1 means an undetected overlap (C01's business) unless the area is wrong
                                if fails.len() < 3 && (want > 1. + 1e-9) {
                                    // decide with the lattice oracle whether the state is really valid
                                    let ov = lattice_max_depth(&body, &st.cartesian(), &lat, 400, 1e-9);
                                    if let Some(o) = ov {
                                        if o.depth <= 1e-9 {
                                            fails.push((key, format!("{} {}: valid state with score {} outside (0, 1]", g, spec.label(), score), case));
                                        }
                                    }
                                }
                            }
                        }
                    }
                }
            }
        }
        // sites on symmetry elements (where copies coincide): if such a state is scored at all, it
        // is scored with every copy of the group placed
        for g in GROUP_NAMES.iter() {
            let n = ita_ops(g).len();
            let tpl = StateTemplate::new(g, &sj);
            for &(x, y) in [(0.5, 0.5), (0., 0.), (-0.5, 0.), (0., 0.3), (0.5, 0.1), (0.25, 0.25), (-0.25, 0.)].iter() {
                let p = Params { length: n as f64 * (4. * body.enclosing_radius() + 1.), ratio: 1., angle: PI / 2., x, y, phi: 0.3 };
                if let Ok(st) = AnyState::from_json(&tpl.with(&p)) {
                    evals += 1;
                    if st.score().is_some() && st.cartesian().len() != n && fails.len() < 3 {
                        fails.push((key, format!("{} {}: a score is reported for a cell that holds {} placed copies where the group has {} (site ({}, {}) on a symmetry element)", g, spec.label(), st.cartesian().len(), n, x, y), json!({"group": g, "shape": spec.label(), "params": p.json()})));
                    }
                }
            }
        }
        // states with two occupied sites of different multiplicity, in both orders: the number of
        // copies is the sum of the sites' multiplicities
        let ident = wyckoff_json("p1");
        let r_enc = body.enclosing_radius();
        for g in ["p2", "p2mg", "p1m1"].iter() {
            let n = ita_ops(g).len() as f64;
            let general = wyckoff_json(g);
            let p = Params { length: (n + 1.) * (4. * r_enc + 1.), ratio: 1., angle: PI / 2., x: 0.13, y: 0.21, phi: 0.3 };
            let one = StateTemplate::new(g, &sj).with(&p);
            let mut swapped = with_second_site(&one, &ident, -0.37, -0.4, 1.3);
            {
                let sites = swapped["occupied_sites"].as_array_mut().unwrap();
                sites.swap(0, 1);
            }
            // (a site record also carries the order of its site symmetry: whatever it says, the
            // copies counted are the copies placed, one per operation)
            let mut flagged = one.clone();
            flagged["occupied_sites"][0]["wyckoff"]["num_rotations"] = json!(2);
            flagged["occupied_sites"][0]["wyckoff"]["mirror_primary"] = json!(true);
            for (label, doc) in [("general site first", with_second_site(&one, &ident, -0.37, -0.4, 1.3)), ("site of multiplicity one first", swapped), ("two general sites", with_second_site(&one, &general, -0.37, -0.4, 1.3)), ("one site whose record claims a two-fold axis and a mirror", flagged)].iter() {
                let copies = if *label == "two general sites" { 2. * n } else if label.starts_with("one site") { n } else { n + 1. };
                if label.starts_with("one site") && AnyState::from_json(doc).map(|s| s.cartesian().len() as f64 != n).unwrap_or(true) {
                    continue;
                }
                let st = match AnyState::from_json(doc) {
                    Ok(s) => s,
                    Err(e) => machinery_error(&format!("two-site state does not deserialise: {}", e)),
                };
                evals += 1;
                if let Some(score) = st.score() {
                    valid_states += 1;
                    let want = copies * want_area / p.lattice().area();
                    if !((score - want).abs() <= 1e-8 * want.abs()) && fails.len() < 3 {
                        fails.push((key, format!("{} {} with two occupied sites ({}): score {} but {} copies x area / cell area = {}", g, spec.label(), label, score, copies, want), json!({"engine": "document", "group": g, "shape": spec.label(), "state": doc})));
                    }
                }
            }
        }
        (evals, valid_states, fails)
    });
    let mut evals = 0u64;
    let mut valid = 0u64;
    for (e, v, fails) in results {
        evals += e;
        valid += v;
        for (k, w, c) in fails {
            run.fail(k, &w, c);
        }
    }
    // the disc-union oracle and the crate may share an algorithm (arc integration), so a subset of
    // the trimers is also compared with a raster count, which shares nothing with either
    let mut raster_checks = 0u64;
    let stride = tier.pick(12, 6);
    let n_raster = tier.pick(400, 900);
    let rasters: Vec<&ShapeSpec> = shapes.iter().filter(|s| matches!(s, ShapeSpec::Trimer(..))).step_by(stride).collect();
    let rres = par_map(&rasters, |_, spec| {
        let body = spec.body();
        if let (Body::Discs(d), TestShape::Mol(m)) = (&body, to_test_shape(spec)) {
            let raster = disc_union_area_raster(d, n_raster);
            let got = m.area();
            let known = trimer_formula_invalid(&body);
            // raster error: boundary cells, about perimeter * cell size
            let tol = 12. * raster.max(1.) / n_raster as f64;
            if !((got - raster).abs() <= tol) {
                return Some((known, format!("{}: area() = {} but a {}x{} raster count gives {}", spec.label(), got, n_raster, n_raster, raster)));
            }
        }
        None
    });
    for (i, r) in rres.into_iter().enumerate() {
        raster_checks += 1;
        if let Some((known, w)) = r {
            run.fail(if known { Some("trimer-area-multiple-overlap") } else { None }, &w, json!({"shape": rasters[i].label()}));
        }
    }
    run.set("raster_cross_checks", raster_checks);
    // a state whose (public) shape is replaced after it was built scores with the shape it holds
    let mut replaced = 0u64;
    {
        use packing::wallpaper::get_wallpaper_group;
        use packing::PackedState;
        // (history 0: replaced before the state was ever scored; 1: scored, replaced, scored again;
        // 2: scored, copied, replaced in the copy)
        for (g, history) in ["p1", "p2", "p2gg"].iter().flat_map(|g| (0..3u8).map(move |h| (g, h))) {
            let wg = get_wallpaper_group(wallpaper_enum(g)).unwrap();
            let n = ita_ops(g).len() as f64;
            for &(a, b) in [(0.637556, 0.3), (0.3, 0.9), (1.2, 0.5)].iter() {
                if let Ok(mut st) = PackedState::from_group(MolecularShape2::from_trimer(a, 120., 1.), &wg) {
                    if history >= 1 {
                        let _ = st.score();
                    }
                    if history == 2 {
                        st = st.clone();
                    }
                    let other = MolecularShape2::from_trimer(b, 90., 0.8);
                    let want_area = body_from_json(&serde_json::to_value(&other).unwrap()).area();
                    st.shape = other;
                    replaced += 1;
                    let doc = serde_json::to_value(&st).unwrap_or(Value::Null);
                    let cell_area = params_of_json(&doc).lattice().area();
                    if let Some(sc) = st.score() {
                        let want = n * want_area / cell_area;
                        if !((sc - want).abs() <= 1e-8 * want) {
                            run.fail(None, &format!("{}: a trimer state (history {}) whose shape was replaced by trimer({}, 90, 0.8) scores {} but copies x area / cell area = {}", g, history, b, sc, want), json!({"engine": "document", "group": g, "state": doc}));
                        }
                    }
                }
            }
            for &(na, nb) in [(4usize, 7usize), (6, 3)].iter() {
                if let Ok(mut st) = PackedState::from_group(LineShape::polygon(na).unwrap(), &wg) {
                    if history >= 1 {
                        let _ = st.score();
                    }
                    if history == 2 {
                        st = st.clone();
                    }
                    let other = LineShape::polygon(nb).unwrap();
                    let want_area = body_from_json(&serde_json::to_value(&other).unwrap()).area();
                    st.shape = other;
                    replaced += 1;
                    let doc = serde_json::to_value(&st).unwrap_or(Value::Null);
                    let cell_area = params_of_json(&doc).lattice().area();
                    if let Some(sc) = st.score() {
                        let want = n * want_area / cell_area;
                        if !((sc - want).abs() <= 1e-8 * want) {
                            run.fail(None, &format!("{}: a {}-gon state (history {}) whose shape was replaced by a {}-gon scores {} but copies x area / cell area = {}", g, na, history, nb, sc, want), json!({"engine": "document", "group": g, "state": doc}));
                        }
                    }
                }
            }
        }
    }
    run.set("states_whose_shape_was_replaced_in_place", replaced);
    // depth-2 histories: every ordered pair of shapes, the second one's dilute p1 and p2 states
    // scored on a thread that has just scored the first one's; also judged by the oracle area
    let mut hist_docs: Vec<Value> = vec![];
    let mut hist_meta: Vec<(String, f64)> = vec![];
    for (si, spec) in shapes.iter().enumerate() {
        let body = spec.body();
        let g = if si % 2 == 0 { "p1" } else { "p2" };
        let n = ita_ops(g).len() as f64;
        let p = Params { length: n * (4. * body.enclosing_radius() + 1.), ratio: 1., angle: PI / 2., x: 0.25, y: 0.25, phi: 0.3 };
        hist_docs.push(StateTemplate::new(g, &spec.json()).with(&p));
        hist_meta.push((format!("{} {}", g, spec.label()), n * body.area() / p.lattice().area()));
    }
    let (hist_pairs, hist_bad) = ordered_pair_histories(&hist_docs);
    for (k, m) in hist_bad.iter().enumerate() {
        if k >= 4 {
            break;
        }
        let known = trimer_formula_invalid(&shapes[m.second].body());
        run.fail(
            if known { Some("trimer-area-multiple-overlap") } else { None },
            &format!("{}: scores {:?} on a thread of its own but {:?} right after {} was scored on the same thread (true fraction {})", hist_meta[m.second].0, m.alone, m.after, hist_meta[m.first].0, hist_meta[m.second].1),
            json!({"engine": "document-pair", "first": hist_docs[m.first], "second": hist_docs[m.second]}),
        );
    }
    run.set("ordered_shape_pairs_scored_on_one_thread", hist_pairs);
    run.set("ordered_shape_pairs_with_a_different_score", hist_bad.len() as u64);
    // two states of the same shape are ranked by their real density (the order the CLI's max() uses)
    let mut order_checks = 0u64;
    for spec in [ShapeSpec::Polygon(4), ShapeSpec::Polygon(3), ShapeSpec::Circle, ShapeSpec::Trimer(0.637556, 120., 1.)].iter() {
        let body = spec.body();
        let sj = spec.json();
        let mut pool: Vec<(AnyState, f64, String)> = vec![];
        for g in GROUP_NAMES.iter() {
            let n = ita_ops(g).len() as f64;
            let tpl = StateTemplate::new(g, &sj);
            // (the last four: densities that differ in the 9th, 7th, 6th and 5th digit)
            for &(l, r) in [(30., 1.), (16., 0.5), (9., 0.8), (8.4, 0.3), (40., 0.25), (30. * (1. + 1e-9), 1.), (30. * (1. + 1e-7), 1.), (30. * (1. + 1e-6), 1.), (30. * (1. + 3e-5), 1.)].iter() {
                // (oblique groups also with skewed cells: equal sides, different areas)
                let angles: Vec<f64> = if ita_family(g) == "Monoclinic" && (l == 30. || l == 16.) { vec![PI / 2., 1.0, 0.7] } else { vec![PI / 2.] };
                for angle in angles {
                    let p = Params { length: l, ratio: r, angle, x: 0.13, y: 0.21, phi: 0.3 };
                    let st = AnyState::from_json(&tpl.with(&p)).unwrap();
                    if st.score().is_some() {
                        pool.push((st, n * body.area() / p.lattice().area(), format!("{} l={} r={} angle={}", g, l, r, angle)));
                    }
                }
            }
        }
        for (a, da, la) in pool.iter() {
            for (b, db, lb) in pool.iter() {
                if (da - db).abs() <= 1e-9 * da.max(*db) {
                    continue;
                }
                order_checks += 1;
                let got = match (a, b) {
                    (AnyState::Poly(x), AnyState::Poly(y)) => x.partial_cmp(y),
                    (AnyState::Mol(x), AnyState::Mol(y)) => x.partial_cmp(y),
                    _ => None,
                };
                let want = da.partial_cmp(db);
                // the total order (what max() over replicas uses) agrees
                let (got_total, max_is_denser) = match (a, b) {
                    (AnyState::Poly(x), AnyState::Poly(y)) => (Some(x.cmp(y)), std::cmp::max(x.clone(), y.clone()).score().map(f64::to_bits) == if da > db { x.score().map(f64::to_bits) } else { y.score().map(f64::to_bits) }),
                    (AnyState::Mol(x), AnyState::Mol(y)) => (Some(x.cmp(y)), std::cmp::max(x.clone(), y.clone()).score().map(f64::to_bits) == if da > db { x.score().map(f64::to_bits) } else { y.score().map(f64::to_bits) }),
                    _ => (None, true),
                };
                if got_total != want || !max_is_denser {
                    run.fail(None, &format!("{}: cmp()/max() rank two states {:?} (max picks the denser one: {}) but their densities {} and {} rank {:?}", spec.label(), got_total, max_is_denser, da, db, want), json!({"shape": spec.label(), "a": la, "b": lb}));
                }
                if got != want {
                    run.fail(None, &format!("{}: states ranked {:?} but their densities {} and {} rank {:?}", spec.label(), got, da, db, want), json!({"shape": spec.label(), "a": la, "b": lb}));
                }
            }
        }
    }
    run.set("ordering_comparisons", order_checks);
    run.set("evaluations", evals + order_checks);
    run.set("distinct_nontrivial", valid + shapes.len() as u64);
    run.set("scored_states", valid);
    run.set("shapes", shapes.len() as u64);
    run.set("exhaustive", true);
    run.set("rule", "complete product: shapes {regular n-gons 3..12, 24, 100; radial polygons with radii in {0.5,1,2}^n, n=3..4 (quick) / 3..5 (thorough); circle; trimers radius {0.2,0.4,0.637556,0.7,1,1.5} x angle {30..180 step 30} x distance {0.3,0.6,1,1.5,2,2.5} plus 3 degenerate ones} x 7 groups x cells {length 0.5,1,3.7,8,100} x {ratio 1,0.73,0.34,0.1} x {angle pi/2,1.3,pi/3,pi/6 for oblique groups}. Non-trivial = states the crate scores (fraction compared with copies x oracle area / |AxB|) plus one area comparison per shape; plus every ordered pair of ~35 valid states of one shape across all groups and cell sizes compared through the states' own ordering");
    run.assume("polygon oracle area is the shoelace formula on the serialised vertices; disc-union oracle area is boundary-arc integration, self-tested against a raster at start-up");
    run.sample(json!({"group": "p2", "shape": "trimer(0.7,60,1)", "params": {"length": 8., "ratio": 0.73, "angle": 1.3, "x": 0.1, "y": 0.2, "phi": 0.3}}));
    run.require(valid > 1000, "too few scored states");
    run.finish()
}
