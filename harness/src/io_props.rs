// C10 (the CLI writes the best replica, labelled as asked) and C11 (JSON round trip, SVG).

use std::f64::consts::PI;

use serde_json::{json, Value};

use crate::cli::{self, CliArgs};
use crate::common::*;
use crate::oracle::*;
use crate::states::*;

// ------------------------------------------------------------------------------------------
// C10

fn values_close(a: &Value, b: &Value, rel: f64) -> bool {
    match (a, b) {
        (Value::Number(x), Value::Number(y)) => {
            let (x, y) = (x.as_f64().unwrap_or(f64::NAN), y.as_f64().unwrap_or(f64::NAN));
            x == y || (x - y).abs() <= rel * x.abs().max(y.abs()).max(1e-300) || (x - y).abs() <= 1e-15
        }
        (Value::Array(x), Value::Array(y)) => x.len() == y.len() && x.iter().zip(y.iter()).all(|(p, q)| values_close(p, q, rel)),
        (Value::Object(x), Value::Object(y)) => x.len() == y.len() && x.iter().all(|(k, v)| y.get(k).map(|w| values_close(v, w, rel)).unwrap_or(false)),
        (x, y) => x == y,
    }
}

struct C10Case {
    group: &'static str,
    shape_args: Vec<String>,
    spec: Option<ShapeSpec>,
    potential: &'static str,
    opt: Vec<String>,
    kmax: u64,
}

/// Histories of the output file: every ordered pair (A, B) of five commands run one after the
/// other with the same --outfile; what B leaves behind must be what B writes to a fresh name.
pub fn shared_outfile_histories(run: &mut Run) -> u64 {
    let cmds: Vec<CliArgs> = vec![
        CliArgs { group: "p2gg".into(), shape: vec!["trimer".into()], potential: Some("Hard".into()), replications: 2, opt: vec!["--steps".into(), "40".into(), "--inner-steps".into(), "20".into()] },
        CliArgs { group: "p1".into(), shape: vec!["circle".into()], potential: Some("Hard".into()), replications: 1, opt: vec!["--steps".into(), "40".into(), "--inner-steps".into(), "20".into()] },
        CliArgs { group: "p2".into(), shape: vec!["polygon".into(), "--sides".into(), "4".into()], potential: Some("Hard".into()), replications: 1, opt: vec!["--steps".into(), "40".into(), "--inner-steps".into(), "20".into()] },
        CliArgs { group: "p1m1".into(), shape: vec!["trimer".into()], potential: Some("LJ".into()), replications: 1, opt: vec!["--steps".into(), "40".into(), "--inner-steps".into(), "20".into()] },
        CliArgs { group: "p1".into(), shape: vec!["circle".into()], potential: Some("LJ".into()), replications: 1, opt: vec!["--steps".into(), "20".into(), "--inner-steps".into(), "20".into()] },
    ];
    let fresh: Vec<cli::CliResult> = par_map(&cmds, |_, c| cli::run_cli(&c.to_vec(), &[]));
    let mut pairs: Vec<(usize, usize)> = vec![];
    for a in 0..cmds.len() {
        for b in 0..cmds.len() {
            pairs.push((a, b));
        }
    }
    let shared = par_map(&pairs, |_, &(a, b)| {
        let out = cli::fresh_out();
        let first = cli::run_cli_at(out.clone(), &cmds[a].to_vec(), &[], false);
        let second = cli::run_cli_at(out, &cmds[b].to_vec(), &[], true);
        (first.status, second)
    });
    let mut shared_n = 0u64;
    for (i, (st1, second)) in shared.into_iter().enumerate() {
        let (a, b) = pairs[i];
        shared_n += 1;
        let case = json!({"engine": "cli-pair", "first": cmds[a].json(), "second": cmds[b].json()});
        if st1 != Some(0) || fresh[b].status != Some(0) {
            run.fail(None, &format!("exit status {:?} / {:?} of runs that must succeed", st1, fresh[b].status), case);
            continue;
        }
        if second.status != Some(0) {
            run.fail(None, &format!("a run whose --outfile already exists ends with status {:?}: {}", second.status, second.stderr.chars().take(200).collect::<String>()), case);
            continue;
        }
        if second.json != fresh[b].json {
            let parses = second.json.as_ref().map(|t| serde_json::from_str::<Value>(t).is_ok()).unwrap_or(false);
            run.fail(None, &format!("run over an existing --outfile (left by another run): the .json is not what the same command writes to a fresh name ({} vs {} bytes, parses: {})", second.json.as_ref().map(|t| t.len()).unwrap_or(0), fresh[b].json.as_ref().map(|t| t.len()).unwrap_or(0), parses), case.clone());
        }
        if second.svg != fresh[b].svg {
            run.fail(None, "run over an existing --outfile (left by another run): the .svg is not what the same command writes to a fresh name", case);
        }
    }
    run.set("ordered_command_pairs_sharing_an_outfile", shared_n);
    shared_n
}

pub fn c10(tier: Tier) -> ! {
    let mut run = Run::new("C10", tier, "exploration");
    let groups = GROUP_NAMES;
    let kmax = tier.pick(3, 5);
    // the long setting matters: only there does the last stage reorder replicas, so that a
    // selection made too early (or a minimum instead of a maximum) shows in the written score
    let settings: Vec<Vec<&str>> = tier.pick(
        vec![vec!["--steps", "60", "--inner-steps", "20"], vec!["--steps", "2000", "--kt-finish", "0.001"]],
        vec![vec!["--steps", "60", "--inner-steps", "20"], vec!["--steps", "2000", "--kt-finish", "0.001"], vec!["--steps", "150", "--inner-steps", "50", "--kt-finish", "0.001", "--max-step-size", "0.02"], vec!["--steps", "1000", "--inner-steps", "100", "--kt-start", "0.5", "--kt-finish", "0.0005"]],
    );
    let mut cases: Vec<C10Case> = vec![];
    for g in groups.iter() {
        for pot in ["Hard", "LJ"].iter() {
            let shapes: Vec<(Vec<&str>, Option<ShapeSpec>)> = vec![
                (vec!["polygon", "--sides", "3"], if *pot == "Hard" { Some(ShapeSpec::Polygon(3)) } else { None }),
                (vec!["polygon", "--sides", "4"], if *pot == "Hard" { Some(ShapeSpec::Polygon(4)) } else { None }),
                (vec!["polygon", "--sides", "6"], if *pot == "Hard" { Some(ShapeSpec::Polygon(6)) } else { None }),
                (vec!["circle"], Some(if *pot == "Hard" { ShapeSpec::Circle } else { ShapeSpec::LjCircle })),
                (vec!["trimer"], Some(if *pot == "Hard" { ShapeSpec::Trimer(0.637556, 120., 1.) } else { ShapeSpec::LjTrimer(0.637556, 120., 1.) })),
                (vec!["trimer", "-r", "0.7", "-a", "180", "-d", "1.5"], Some(if *pot == "Hard" { ShapeSpec::Trimer(0.7, 180., 1.5) } else { ShapeSpec::LjTrimer(0.7, 180., 1.5) })),
                (vec!["trimer", "-r", "0.5", "-a", "100", "-d", "0.8"], Some(if *pot == "Hard" { ShapeSpec::Trimer(0.5, 100., 0.8) } else { ShapeSpec::LjTrimer(0.5, 100., 0.8) })),
            ];
            for (sa, spec) in shapes {
                for (si, set) in settings.iter().enumerate() {
                    if si > 0 && ((sa[0] == "polygon" && sa[2] == "6") || sa[0] == "circle" || sa.len() > 3 && sa[0] == "trimer") {
                        continue;
                    }
                    // (the long setting up to six replicas in the oblique groups, where replicas end with different cell angles)
                    let km = if si > 0 && (*g == "p1" || *g == "p2") { kmax.max(6) } else { kmax };
                    cases.push(C10Case { group: g, shape_args: sa.iter().map(|s| s.to_string()).collect(), spec: spec.clone(), potential: pot, opt: set.iter().map(|s| s.to_string()).collect(), kmax: km });
                }
                // a hot, short Lennard-Jones run: replicas end with negative as well as positive
                // scores, so the selection has to order across zero
                if *pot == "LJ" && (sa[0] == "circle" || sa.len() == 1 && sa[0] == "trimer") {
                    let set = ["--kt-start", "50", "--steps", "20", "--max-step-size", "0.05", "--kt-finish", "0.001"];
                    cases.push(C10Case { group: g, shape_args: sa.iter().map(|s| s.to_string()).collect(), spec: spec.clone(), potential: pot, opt: set.iter().map(|s| s.to_string()).collect(), kmax: kmax.max(5) });
                }
            }
        }
    }
    let results = par_map(&cases, |_, c| {
        let mut fails: Vec<(String, Value)> = vec![];
        let mut scores: Vec<f64> = vec![];
        let mut runs = 0u64;
        let mut unlogged = 0u64;
        for k in 1..=c.kmax {
            let args = CliArgs { group: c.group.to_string(), shape: c.shape_args.clone(), potential: Some(c.potential.to_string()), replications: k, opt: c.opt.clone() };
            let r = cli::run_cli(&args.to_vec(), &[]);
            runs += 1;
            let case = args.json();
            if c.spec.is_none() {
                // polygon with LJ: must be an error, not a structure
                if r.status == Some(0) || r.json.is_some() {
                    fails.push(("polygon with the LJ potential is not implemented but the tool reported success".to_string(), case));
                }
                break;
            }
            if r.status != Some(0) {
                fails.push((format!("exit status {:?}: {}", r.status, r.stderr.chars().take(300).collect::<String>()), case));
                break;
            }
            let text = match &r.json {
                Some(t) => t.clone(),
                None => {
                    fails.push(("no .json written".to_string(), case));
                    break;
                }
            };
            let doc: Value = match serde_json::from_str(&text) {
                Ok(d) => d,
                Err(e) => {
                    fails.push((format!(".json does not parse: {}", e), case));
                    break;
                }
            };
            // labels
            let name = doc["wallpaper"]["name"].as_str().unwrap_or("");
            if name != c.group {
                fails.push((format!("asked for {} but the written structure is labelled {:?}", c.group, name), case.clone()));
            }
            let fam = doc["wallpaper"]["family"].as_str().unwrap_or("");
            let cfam = doc["cell"]["family"].as_str().unwrap_or("");
            if fam != ita_family(c.group) || cfam != ita_family(c.group) {
                fails.push((format!("{}: written crystal family {:?} / cell family {:?}, the group's family is {}", c.group, fam, cfam, ita_family(c.group)), case.clone()));
            }
            // a trimer as asked for, judged on the written numbers alone: three discs of radii 1,
            // r, r; the outer two at the requested distance from the first, the requested angle apart
            if c.shape_args[0] == "trimer" && c.potential == "Hard" {
                let arg = |flag: &str, dflt: f64| c.shape_args.iter().position(|a| a == flag).and_then(|i| c.shape_args.get(i + 1)).and_then(|v| v.parse::<f64>().ok()).unwrap_or(dflt);
                let (r, a, d) = (arg("-r", 0.637556), arg("-a", 120.), arg("-d", 1.));
                let items = doc["shape"]["items"].as_array().cloned().unwrap_or_default();
                let pos = |i: usize| [items[i]["position"][0].as_f64().unwrap_or(f64::NAN), items[i]["position"][1].as_f64().unwrap_or(f64::NAN)];
                let ok = items.len() == 3 && {
                    let (p0, p1, p2) = (pos(0), pos(1), pos(2));
                    let (v1, v2) = (sub(p1, p0), sub(p2, p0));
                    let ang = (dot(v1, v2) / (norm(v1) * norm(v2))).max(-1.).min(1.).acos().to_degrees();
                    (items[0]["radius"].as_f64().unwrap_or(0.) - 1.).abs() < 1e-12
                        && (items[1]["radius"].as_f64().unwrap_or(0.) - r).abs() < 1e-12
                        && (items[2]["radius"].as_f64().unwrap_or(0.) - r).abs() < 1e-12
                        && (norm(v1) - d).abs() < 1e-9
                        && (norm(v2) - d).abs() < 1e-9
                        && (ang - a).abs() < 1e-6
                };
                if !ok {
                    fails.push((format!("{}: the written shape is not a trimer of radius {}, angle {} and distance {}", c.group, r, a, d), case.clone()));
                }
            }
            let want_shape = c.spec.as_ref().unwrap().json();
            if !values_close(&doc["shape"], &want_shape, 1e-12) {
                fails.push((format!("{}: the written shape is not the requested {}", c.group, c.spec.as_ref().unwrap().label()), case.clone()));
            }
            let order = ita_ops(c.group).len();
            let nsym = doc["occupied_sites"][0]["wyckoff"]["symmetries"].as_array().map(|a| a.len()).unwrap_or(0);
            let nsites = doc["occupied_sites"].as_array().map(|a| a.len()).unwrap_or(0);
            let st = match AnyState::from_json(&doc) {
                Ok(s) => s,
                Err(e) => {
                    fails.push((format!("written structure does not deserialise: {}", e), case));
                    break;
                }
            };
            let copies = st.relative().len();
            if nsym != order || copies != order || st.total_shapes() != order || nsites != 1 {
                fails.push((format!("{}: {} symmetry operations, {} placed copies, {} sites; the group has order {}", c.group, nsym, copies, nsites, order), case.clone()));
            }
            // the symmetry list is the group's (independent table)
            let ops = ita_ops(c.group);
            if let Some(list) = doc["occupied_sites"][0]["wyckoff"]["symmetries"].as_array() {
                for o in ops.iter() {
                    let a = o.as_aff();
                    let found = list.iter().filter_map(Aff::from_json9).any(|m| m.m == a.m && dist_to_int(m.t[0] - a.t[0]) < 1e-12 && dist_to_int(m.t[1] - a.t[1]) < 1e-12);
                    if !found {
                        fails.push((format!("{}: the written symmetry list lacks an operation of the group", c.group), case.clone()));
                        break;
                    }
                }
            }
            // logged score = score of the written structure
            let file_score = st.score();
            match (cli::logged_score(&r.stderr), file_score) {
                (Some(l), Some(f)) => {
                    if !((l - f).abs() <= 1e-9 * l.abs().max(f.abs())) {
                        fails.push((format!("logged final score {} but the written structure scores {}", l, f), case.clone()));
                    }
                    scores.push(f);
                }
                (None, Some(f)) => {
                    // no line of the expected form in the log: that clause is not observable here
                    unlogged += 1;
                    scores.push(f);
                }
                (l, f) => {
                    fails.push((format!("logged score {:?}, score of the written structure {:?}", l, f), case.clone()));
                    break;
                }
            }
            // prefix monotonicity in the number of replications
            let n = scores.len();
            if n >= 2 && scores[n - 1] < scores[n - 2] * (1. - 1e-12 * scores[n - 2].signum()) && scores[n - 1] < scores[n - 2] {
                fails.push((format!("{} replications give a lower score ({}) than {} ({})", k, scores[n - 1], k - 1, scores[n - 2]), case.clone()));
            }
        }
        let improved = scores.len() >= 2 && scores[scores.len() - 1] > scores[0];
        (runs, scores.len() as u64, improved, fails, unlogged)
    });
    let (mut runs, mut written, mut improved) = (0u64, 0u64, 0u64);
    let mut unlogged_total = 0u64;
    for (i, (r, w, imp, fails, unl)) in results.into_iter().enumerate() {
        unlogged_total += unl;
        runs += r;
        written += w;
        if imp {
            improved += 1;
        }
        for (w, c) in fails {
            run.fail(None, &w, c);
        }
        if i % (cases.len() / 5 + 1) == 0 {
            run.sample(json!({"group": cases[i].group, "shape": cases[i].shape_args, "potential": cases[i].potential, "replications": format!("1..{}", cases[i].kmax)}));
        }
    }
    let shared_n = shared_outfile_histories(&mut run);
    // the private pipeline in-process on a recording state: which replica is written when the
    // replicas' scores agree to 0, 6, 9 or 13 digits
    let (pipes, pipes_ok) = crate::pipe::best_replica_is_written(&mut run, tier);
    let mono = crate::pipe::more_replicas_never_worse(&mut run);
    run.set("in_process_replica_counts_compared", mono);
    run.set("in_process_pipelines_on_a_recording_state", pipes);
    run.set("in_process_pipelines_interpretable", pipes_ok);
    // --start-config: whatever the file holds, the written structure is labelled with what was asked for
    let mut start_cfg_runs = 0u64;
    {
        let first = CliArgs { group: "p2".into(), shape: vec!["polygon".into(), "--sides".into(), "4".into()], potential: Some("Hard".into()), replications: 1, opt: vec!["--steps".into(), "40".into(), "--inner-steps".into(), "20".into()] };
        let out = cli::fresh_out();
        let r1 = cli::run_cli_at(out.clone(), &first.to_vec(), &[], false);
        let file = out.with_extension("json");
        if r1.status == Some(0) && file.exists() {
            for (g, shape, spec) in [("p1g1", vec!["polygon", "--sides", "4"], ShapeSpec::Polygon(4)), ("p2", vec!["polygon", "--sides", "5"], ShapeSpec::Polygon(5)), ("p1m1", vec!["circle"], ShapeSpec::Circle)].iter() {
                let mut opt: Vec<String> = vec!["--steps".into(), "40".into(), "--inner-steps".into(), "20".into(), "--start-config".into()];
                opt.push(file.to_string_lossy().to_string());
                let args = CliArgs { group: g.to_string(), shape: shape.iter().map(|s| s.to_string()).collect(), potential: Some("Hard".into()), replications: 1, opt };
                let r = cli::run_cli(&args.to_vec(), &[]);
                start_cfg_runs += 1;
                // (a tool that refuses the combination with an error message is within the property)
                if r.status != Some(0) {
                    continue;
                }
                if let Some(Ok(doc)) = r.json.as_ref().map(|t| serde_json::from_str::<Value>(t)) {
                    let name = doc["wallpaper"]["name"].as_str().unwrap_or("");
                    let fam = doc["wallpaper"]["family"].as_str().unwrap_or("");
                    if name != *g || fam != ita_family(g) || !values_close(&doc["shape"], &spec.json(), 1e-12) {
                        run.fail(None, &format!("asked for {} {} with a --start-config file of another structure: the written structure is labelled {:?} / {:?} and holds {}", g, spec.label(), name, fam, if values_close(&doc["shape"], &spec.json(), 1e-12) { "the requested shape" } else { "another shape" }), args.json());
                    }
                } else {
                    run.fail(None, "status 0 but no readable .json", args.json());
                }
            }
        }
        let _ = std::fs::remove_file(out.with_extension("json"));
        let _ = std::fs::remove_file(out.with_extension("svg"));
    }
    run.set("runs_with_a_start_config_of_another_structure", start_cfg_runs);
    cli::cleanup();
    run.set("evaluations", runs + shared_n);
    run.set("distinct_nontrivial", written);
    run.set("argument_combinations", cases.len() as u64);
    run.set("structures_written_and_checked", written);
    run.set("runs_without_a_final_score_line_in_the_log", unlogged_total);
    run.set("combinations_where_more_replicas_improved_the_score", improved);
    run.set("exhaustive", true);
    run.set("rule", "complete product through the real release binary: 7 groups x 6 shape subcommands (polygon 3/4/6, circle, default trimer, trimer -r 0.7 -a 180 -d 1.5) x 2 potentials (polygon+LJ must be a reported error) x replications 1..3 (quick) / 1..5 (thorough) x step settings (a short one, a 2000-step one in which the last stage reorders replicas, and for LJ circle/trimer a hot 20-step one whose replicas end on both sides of zero). Non-trivial = invocations that wrote a structure; each is checked for label, family, shape, symmetry list (independent table), copy count, logged score = score of the file, and score(k) >= score(k-1)");
    run.require(written > 50, "too few structures written");
    run.require(improved > 0, "adding replicas never improved a score: the monotonicity check would be vacuous");
    run.finish()
}

// ------------------------------------------------------------------------------------------
// C11

/// Bare round trip of one double through the crate's JSON dependency.
fn bare_roundtrips(v: f64) -> bool {
    match serde_json::to_string(&v) {
        Ok(t) => serde_json::from_str::<f64>(&t).map(|w| w.to_bits() == v.to_bits()).unwrap_or(false),
        Err(_) => false,
    }
}

/// Leaves at which two documents differ: (path, a, b).
fn diff_leaves(a: &Value, b: &Value, path: String, out: &mut Vec<(String, Value, Value)>) {
    match (a, b) {
        (Value::Array(x), Value::Array(y)) if x.len() == y.len() => {
            for (i, (p, q)) in x.iter().zip(y.iter()).enumerate() {
                diff_leaves(p, q, format!("{}[{}]", path, i), out);
            }
        }
        (Value::Object(x), Value::Object(y)) if x.len() == y.len() && x.keys().all(|k| y.contains_key(k)) => {
            for (k, v) in x.iter() {
                diff_leaves(v, &y[k], format!("{}.{}", path, k), out);
            }
        }
        (Value::Number(x), Value::Number(y)) => {
            let same = match (x.as_f64(), y.as_f64()) {
                (Some(p), Some(q)) => p.to_bits() == q.to_bits() && x.is_f64() == y.is_f64(),
                _ => x == y,
            };
            if !same {
                out.push((path, a.clone(), b.clone()));
            }
        }
        (x, y) => {
            if x != y {
                out.push((path, x.clone(), y.clone()));
            }
        }
    }
}

pub enum RoundTrip {
    Ok,
    /// every difference is a double whose bare round trip through serde_json fails
    FloatParse(usize),
    Broken(String),
}

pub fn roundtrip_judge(st: &AnyState) -> RoundTrip {
    let text = st.to_string();
    let orig = st.to_json();
    let parsed: Value = match serde_json::from_str(&text) {
        Ok(v) => v,
        Err(e) => return RoundTrip::Broken(format!("written JSON does not parse: {}", e)),
    };
    // what does the text carry? (independent of the crate's Deserialize)
    let mut d0 = vec![];
    diff_leaves(&orig, &parsed, String::new(), &mut d0);
    let back = match AnyState::from_json(&parsed) {
        Ok(s) => s,
        Err(e) => return RoundTrip::Broken(format!("written JSON does not deserialise: {}", e)),
    };
    let text2 = back.to_string();
    let mut d1 = vec![];
    diff_leaves(&orig, &back.to_json(), String::new(), &mut d1);
    let score_same = match (st.score(), back.score()) {
        (Some(a), Some(b)) => a.to_bits() == b.to_bits(),
        (None, None) => true,
        _ => false,
    };
    let pl_same = {
        let (a, b) = (st.cartesian(), back.cartesian());
        a.len() == b.len() && a.iter().zip(b.iter()).all(|(p, q)| p.m.iter().flatten().zip(q.m.iter().flatten()).all(|(x, y)| x.to_bits() == y.to_bits()) && p.t[0].to_bits() == q.t[0].to_bits() && p.t[1].to_bits() == q.t[1].to_bits())
    };
    if text == text2 && d1.is_empty() && score_same && pl_same {
        return RoundTrip::Ok;
    }
    // classify: are all differences doubles that the JSON dependency itself cannot round-trip?
    let all_float_parse = !d1.is_empty()
        && d1.iter().all(|(_, a, b)| match (a.as_f64(), b.as_f64()) {
            (Some(x), Some(y)) => a.is_f64() && b.is_f64() && !bare_roundtrips(x) && ((x - y).abs() <= 4. * f64::EPSILON * x.abs().max(f64::MIN_POSITIVE)),
            _ => false,
        });
    if all_float_parse {
        return RoundTrip::FloatParse(d1.len());
    }
    if d1.is_empty() {
        return RoundTrip::Broken(format!("same document after the round trip but score or placements differ (score {:?} -> {:?})", st.score(), back.score()));
    }
    let (p, a, b) = &d1[0];
    RoundTrip::Broken(format!("{} field(s) differ after the round trip, first: {} was {} and reads back as {}", d1.len(), p, a, b))
}

fn special_doubles(tier: Tier) -> Vec<f64> {
    let mut v = vec![];
    let pats: [u64; 7] = [0, 1, (1u64 << 52) - 1, 0x5555555555555, 0xAAAAAAAAAAAAA, 1u64 << 51, 0xFF];
    let step = tier.pick(8, 1);
    let mut e = 1i64;
    while e <= 2046 {
        for p in pats.iter() {
            v.push(f64::from_bits(((e as u64) << 52) | p));
        }
        e += step;
    }
    // subnormals
    for p in pats.iter() {
        if *p != 0 {
            v.push(f64::from_bits(*p));
        }
    }
    for k in 1..=tier.pick(200, 1000) {
        v.push(0.1 * k as f64);
        v.push(k as f64 / 3.);
        v.push(k as f64 * PI / 180.);
        v.push(1. / k as f64);
    }
    v.push(0.38813333333333333);
    // doubles that are exactly representable in single precision without being short decimals
    for k in 1..=tier.pick(60, 400) {
        v.push(f64::from((0.1 * k as f64) as f32));
        v.push(f64::from((k as f64 / 3.) as f32));
        v.push(f64::from((k as f64 * PI / 180.) as f32));
    }
    v
}

/// Parse the `<use ...>` elements of an SVG document: (href, six matrix numbers).
pub fn svg_uses(svg: &str) -> Result<Vec<(String, [f64; 6])>, String> {
    let mut out = vec![];
    let mut rest = svg;
    while let Some(p) = rest.find("<use") {
        let tail = &rest[p..];
        let end = tail.find('>').ok_or("unterminated <use")?;
        let el = &tail[..end];
        let attr = |name: &str| -> Option<String> {
            let key = format!("{}=\"", name);
            let s = el.find(&key)? + key.len();
            let e = el[s..].find('"')? + s;
            Some(el[s..e].to_string())
        };
        let href = attr("href").ok_or("use without href")?;
        let tr = attr("transform").ok_or("use without transform")?;
        let inner = tr.trim().strip_prefix("matrix(").and_then(|s| s.strip_suffix(")")).ok_or(format!("transform is not a matrix: {}", tr))?;
        let nums: Vec<f64> = inner.split(|c: char| c == ' ' || c == ',').filter(|s| !s.is_empty()).map(|s| s.parse::<f64>().map_err(|e| format!("{}: {}", s, e))).collect::<Result<_, _>>()?;
        if nums.len() != 6 {
            return Err(format!("matrix with {} numbers", nums.len()));
        }
        out.push((href, [nums[0], nums[1], nums[2], nums[3], nums[4], nums[5]]));
        rest = &tail[end..];
    }
    Ok(out)
}

pub fn svg_judge(st: &AnyState) -> Option<String> {
    let doc = st.to_json();
    let p = params_of_json(&doc);
    let lat = p.lattice();
    let svg = st.svg();
    let uses = match svg_uses(&svg) {
        Ok(u) => u,
        Err(e) => return Some(format!("SVG not understood: {}", e)),
    };
    let scale = p.length * (1. + p.ratio) * 3.;
    let close = |a: f64, b: f64| (a - b).abs() <= 1e-12 * scale.max(1.);
    // expected mol placements: every copy and its 8 nearest images
    let mut want: Vec<[f64; 6]> = vec![];
    for r in st.relative() {
        let c = lat.cart(r.t);
        for n in -1..=1 {
            for m in -1..=1 {
                let l = lat.vec(n, m);
                want.push([r.m[0][0], r.m[1][0], r.m[0][1], r.m[1][1], c[0] + l[0], c[1] + l[1]]);
            }
        }
    }
    let mols: Vec<&[f64; 6]> = uses.iter().filter(|(h, _)| h == "#mol").map(|(_, m)| m).collect();
    if mols.len() != want.len() {
        return Some(format!("{} shapes drawn, expected {} (every copy and its 8 nearest images)", mols.len(), want.len()));
    }
    for m in mols.iter() {
        match want.iter().position(|w| (0..4).all(|i| (m[i] - w[i]).abs() <= 1e-15) && close(m[4], w[4]) && close(m[5], w[5])) {
            Some(i) => {
                want.swap_remove(i);
            }
            None => return Some(format!("a shape is drawn with matrix({:?}) which is not the Cartesian transform of a copy or of one of its nearest images", m)),
        }
    }
    // cell outlines: 9 translates
    let cells: Vec<&[f64; 6]> = uses.iter().filter(|(h, _)| h == "#cell").map(|(_, m)| m).collect();
    if cells.len() != 9 {
        return Some(format!("{} cell outlines drawn, expected 9", cells.len()));
    }
    let mut wantc: Vec<P2> = vec![];
    for n in -1..=1 {
        for m in -1..=1 {
            wantc.push(lat.vec(n, m));
        }
    }
    for c in cells.iter() {
        match wantc.iter().position(|w| close(c[4], w[0]) && close(c[5], w[1]) && c[0] == 1. && c[1] == 0. && c[2] == 0. && c[3] == 1.) {
            Some(i) => {
                wantc.swap_remove(i);
            }
            None => return Some(format!("a cell outline is drawn at ({}, {}) which is not a lattice translate", c[4], c[5])),
        }
    }
    None
}

fn collect_leaf_paths(v: &Value, path: String, out: &mut Vec<String>) {
    match v {
        Value::Array(a) => {
            for (i, x) in a.iter().enumerate() {
                collect_leaf_paths(x, format!("{}/{}", path, i), out);
            }
        }
        Value::Object(o) => {
            for (k, x) in o.iter() {
                collect_leaf_paths(x, format!("{}/{}", path, k), out);
            }
        }
        _ => out.push(path),
    }
}

pub fn c11(tier: Tier) -> ! {
    let mut run = Run::new("C11", tier, "exploration");
    let doubles = special_doubles(tier);
    // (0) states with two occupied sites built through the public Rust API (no assumption about
    // the layout of the document), edited through their basis handles, then round-tripped
    {
        use packing::wallpaper::{get_wallpaper_group, Wallpaper, WyckoffSite};
        use packing::{LJShape2, LineShape, PackedState, PotentialState};
        let mut multi: Vec<(String, AnyState)> = vec![];
        for g in ["p2", "p2mg", "p1"].iter() {
            let wg = get_wallpaper_group(wallpaper_enum(g)).unwrap();
            let site = WyckoffSite::new(&wg).unwrap();
            let ident = WyckoffSite::new(&get_wallpaper_group(wallpaper_enum("p1")).unwrap()).unwrap();
            for second in [site.clone(), ident.clone()].iter() {
                let hard = PackedState::initialise(LineShape::polygon(4).unwrap(), Wallpaper::new(&wg), &[site.clone(), second.clone()]);
                let lj = PotentialState::initialise(LJShape2::from_trimer(0.637556, 120., 1.), Wallpaper::new(&wg), &[site.clone(), second.clone()]);
                for st in vec![AnyState::Poly(hard), AnyState::Lj(lj)] {
                    // spread the two sites apart and give every parameter its own value
                    let nb = st.basis_values().len();
                    let vals = [0.3125, -0.1875, 1.25, -0.4375, 0.0625, 2.75];
                    for k in 0..6.min(nb) {
                        st.set_basis_value(nb - 1 - k, vals[k]);
                    }
                    multi.push((format!("{} two sites ({} + {} copies)", g, site.multiplicity(), second.multiplicity()), st));
                }
            }
        }
        // three general sites of p2gg: twelve molecules in the cell
        {
            let wg = get_wallpaper_group(wallpaper_enum("p2gg")).unwrap();
            let site = WyckoffSite::new(&wg).unwrap();
            let hard = PackedState::initialise(LineShape::polygon(3).unwrap(), Wallpaper::new(&wg), &[site.clone(), site.clone(), site.clone()]);
            let lj = PotentialState::initialise(LJShape2::circle(), Wallpaper::new(&wg), &[site.clone(), site.clone(), site.clone()]);
            for st in vec![AnyState::Poly(hard), AnyState::Lj(lj)] {
                let nb = st.basis_values().len();
                let vals = [0.3125, -0.1875, 1.25, -0.4375, 0.0625, 2.75, 0.1, 0.35, 4.];
                for k in 0..9.min(nb) {
                    st.set_basis_value(nb - 1 - k, vals[k]);
                }
                multi.push(("p2gg three sites (12 copies)".to_string(), st));
            }
        }
        // regular polygons of 11, 12 and 17 sides (corners that are not round numbers), and a site
        // whose second operation is a glide by 0.3 of a cell or a Cartesian third of a turn
        {
            let wg = get_wallpaper_group(wallpaper_enum("p2")).unwrap();
            for n in [11usize, 12, 17].iter() {
                if let Ok(st) = PackedState::from_group(LineShape::polygon(*n).unwrap(), &wg) {
                    let st = AnyState::Poly(st);
                    let nb = st.basis_values().len();
                    st.set_basis_value(nb - 1, 1.25);
                    multi.push((format!("p2 regular {}-gon", n), st));
                }
            }
            let p1 = get_wallpaper_group(wallpaper_enum("p1")).unwrap();
            let ident = WyckoffSite::new(&p1).unwrap();
            for (label, second) in [("a glide by 0.3 of a cell", packing::Transform2::from(nalgebra::Matrix3::new(1., 0., 0.3, 0., -1., 0.5, 0., 0., 1.))), ("a third of a turn in Cartesian axes", packing::Transform2::new(2. * PI / 3., (0., 0.)))].iter() {
                let mut site = ident.clone();
                site.symmetries.push(second.clone());
                let hard = PackedState::initialise(LineShape::polygon(4).unwrap(), Wallpaper::new(&p1), &[site.clone()]);
                let st = AnyState::Poly(hard);
                let nb = st.basis_values().len();
                st.set_basis_value(nb - 3, 0.3125);
                multi.push((format!("a site whose second operation is {}", label), st));
            }
        }
        // groups the crate does not ship, handed over as operation strings (their lattice
        // operations are not orthogonal matrices): hexagonal p3 and p3m1, square p4
        for (name, fam, ops) in [
            ("p3", packing::CrystalFamily::Hexagonal, vec!["x,y", "-y,x-y", "-x+y,-x"]),
            ("p3m1", packing::CrystalFamily::Hexagonal, vec!["x,y", "-y,x-y", "-x+y,-x", "-y,-x", "-x+y,y", "x,x-y"]),
            ("p4", packing::CrystalFamily::Tetragonal, vec!["x,y", "-y,x", "-x,-y", "y,-x"]),
        ]
        .iter()
        {
            let wg = packing::wallpaper::WallpaperGroup { name, family: *fam, wyckoff_str: ops.clone() };
            if let (Ok(h), Ok(l)) = (PackedState::from_group(LineShape::polygon(3).unwrap(), &wg), PotentialState::from_group(LJShape2::from_trimer(0.637556, 120., 1.), &wg)) {
                for st in vec![AnyState::Poly(h), AnyState::Lj(l)] {
                    let nb = st.basis_values().len();
                    let vals = [0.3125, -0.1875, 1.25];
                    for k in 0..3.min(nb) {
                        st.set_basis_value(nb - 1 - k, vals[k]);
                    }
                    multi.push((format!("{} handed over as operation strings", name), st));
                }
            }
        }
        let mut n_multi = 0u64;
        for (label, st) in multi.iter() {
            n_multi += 1;
            let case = json!({"engine": "document", "label": label, "state": st.to_json()});
            if let Some(w) = svg_judge(st) {
                run.fail(None, &format!("{}: the SVG does not show the structure: {}", label, w), case.clone());
            }
            let text = st.to_string();
            let parsed: Result<Value, _> = serde_json::from_str(&text);
            let back = parsed.ok().and_then(|v| AnyState::from_json_as(st, &v).ok());
            match back {
                None => run.fail(None, &format!("{}: the written document does not read back", label), case),
                Some(b) => {
                    // (field for field, through the derived debug representation: doubles print with
                    // the digits that identify them)
                    if format!("{:?}", b) != format!("{:?}", st) {
                        run.fail(None, &format!("{}: the object read back is not the object that was written (their debug representations differ)", label), case.clone());
                    }
                    let same_n = b.total_shapes() == st.total_shapes() && b.relative().len() == st.relative().len();
                    let score_close = match (st.score(), b.score()) {
                        (Some(x), Some(y)) => (x - y).abs() <= 1e-9 * x.abs().max(y.abs()).max(1e-300),
                        (None, None) => true,
                        _ => false,
                    };
                    let placed_close = same_n && st.cartesian().iter().zip(b.cartesian().iter()).all(|(p, q)| (0..2).all(|i| (p.t[i] - q.t[i]).abs() <= 1e-9 * (1. + p.t[i].abs()) && (0..2).all(|j| (p.m[i][j] - q.m[i][j]).abs() <= 1e-12)));
                    if !same_n || !score_close || !placed_close {
                        run.fail(None, &format!("{}: {} copies, score {:?} before; {} copies, score {:?} after the round trip (or the copies moved)", label, st.total_shapes(), st.score(), b.total_shapes(), b.score()), case);
                    }
                }
            }
        }
        run.set("api_built_two_site_structures", n_multi);
        // the rest of this check builds documents in the layout the crate writes today
        let probe = state_json("p2", &ShapeSpec::Polygon(4).json(), &Params { length: 9., ratio: 0.8, angle: 1.3, x: 0.1, y: 0.2, phi: 0.3 });
        if AnyState::from_json(&probe).is_err() {
            if run.violations() > 0 {
                run.set("evaluations", n_multi);
                run.set("distinct_nontrivial", n_multi);
                run.set("rule", "only the API-built structures were checked: the crate no longer reads documents in the layout this harness writes");
                run.sample(json!({"api_built": multi[0].0}));
                run.finish();
            }
            machinery_error("the crate no longer reads state documents in the layout this harness writes");
        }
    }
    // (i) every special double in every parameter slot where it is admissible
    let combos: Vec<(&str, ShapeSpec)> = vec![("p2", ShapeSpec::Polygon(4)), ("p2mg", ShapeSpec::Trimer(0.637556, 120., 1.)), ("p1", ShapeSpec::LjTrimer(0.637556, 120., 1.)), ("p2gg", ShapeSpec::LjCircle)];
    let mut jobs = vec![];
    for (g, s) in combos.iter() {
        for slot in 0..6usize {
            jobs.push((g.to_string(), s.clone(), slot));
        }
    }
    let res = par_map(&jobs, |_, (g, spec, slot)| {
        let sj = spec.json();
        let tpl = StateTemplate::new(g, &sj);
        let base = Params { length: 7.3, ratio: 0.83, angle: if ita_family(g) == "Monoclinic" { 1.37 } else { PI / 2. }, x: 0.123, y: -0.377, phi: 1.234 };
        let (mut n, mut ok, mut fp) = (0u64, 0u64, 0u64);
        let mut broken: Vec<(String, Value)> = vec![];
        for &v in doubles.iter() {
            for sign in [1., -1.].iter() {
                let v = v * sign;
                let mut p = base.clone();
                let admissible = match slot {
                    // (cell length, site coordinates and orientation of any magnitude: a file may hold them)
                    0 => v > 1e-3,
                    1 => v > 1e-3 && v <= 1.,
                    2 => v > 0.1 && v < 3.,
                    _ => true,
                };
                if !admissible || !v.is_finite() {
                    continue;
                }
                match slot {
                    0 => p.length = v,
                    1 => p.ratio = v,
                    2 => p.angle = v,
                    3 => p.x = v,
                    4 => p.y = v,
                    _ => p.phi = v,
                }
                let st = match AnyState::from_json(&tpl.with(&p)) {
                    Ok(s) => s,
                    Err(e) => machinery_error(&e),
                };
                n += 1;
                match roundtrip_judge(&st) {
                    RoundTrip::Ok => ok += 1,
                    RoundTrip::FloatParse(_) => fp += 1,
                    RoundTrip::Broken(w) => {
                        if broken.len() < 2 {
                            broken.push((w, json!({"engine": "state", "group": g, "shape": sj, "params": p.json()})));
                        }
                    }
                }
            }
        }
        (n, ok, fp, broken)
    });
    let (mut n, mut ok, mut fp) = (0u64, 0u64, 0u64);
    for (a, b, c, broken) in res {
        n += a;
        ok += b;
        fp += c;
        for (w, case) in broken {
            run.fail(None, &w, case);
        }
    }
    if fp > 0 {
        run.fail(Some("serde-json-float-parse"), &format!("{} of {} states do not read back identically", fp, n), json!({"count": fp, "example_value": 0.38813333333333333}));
    }
    run.set("slot_states", n);
    run.set("slot_states_roundtrip_exact", ok);
    run.set("slot_states_off_by_dependency_float_parse", fp);
    // (ii) structures: constructor-built and optimised states of every group x shape; (iii) their SVG
    let mut sjobs: Vec<(String, ShapeSpec)> = vec![];
    for g in GROUP_NAMES.iter() {
        for s in crate::rsx::start_shapes(Tier::Thorough) {
            sjobs.push((g.to_string(), s));
        }
    }
    let sres = par_map(&sjobs, |_, (g, s)| {
        let mut states = vec![AnyState::from_group(g, s)];
        for (steps, seed) in [(50u64, 1u64), (200, 2), (tier.pick(400, 1500), 3)].iter() {
            if let Some(d) = crate::rsx::dense_start(&states[0], *steps, *seed) {
                states.push(d);
            }
        }
        // lattice states with awkward numbers
        let tpl = StateTemplate::new(g, &s.json());
        for k in 0..tier.pick(6, 40) {
            let t = k as f64;
            let p = Params { length: 4. + 0.37 * t, ratio: 1. / (1. + 0.13 * t), angle: if ita_family(g) == "Monoclinic" { PI / 2. - 0.02 * t } else { PI / 2. }, x: wrap_half(0.1 * t / 3.), y: wrap_half(-0.07 * t), phi: 0.1 * t * PI / 3. };
            states.push(AnyState::from_json(&tpl.with(&p)).unwrap());
        }
        // copies exactly on cell faces and symmetry elements (what bound clamping produces)
        for &(x, y) in [(0.5, 0.5), (-0.5, 0.2), (0.3, -0.5), (0., 0.), (0.25, 0.25), (0., 0.5)].iter() {
            let p = Params { length: 6.5, ratio: 0.75, angle: PI / 2., x, y, phi: 0.5 };
            states.push(AnyState::from_json(&tpl.with(&p)).unwrap());
        }
        // two occupied sites (same letter, as every constructor labels them)
        {
            let p = Params { length: 9., ratio: 0.8, angle: PI / 2., x: 0.125, y: -0.25, phi: 0.75 };
            let general = wyckoff_json(g);
            let ident = wyckoff_json("p1");
            states.push(AnyState::from_json(&with_second_site(&tpl.with(&p), &general, -0.375, 0.3125, 2.)).unwrap());
            states.push(AnyState::from_json(&with_second_site(&tpl.with(&p), &ident, 0.4375, 0.0625, 1.)).unwrap());
        }
        let (mut n, mut ok, mut fp, mut svgs) = (0u64, 0u64, 0u64, 0u64);
        let mut broken: Vec<(String, Value)> = vec![];
        for st in states.iter() {
            n += 1;
            let case = json!({"engine": "document", "group": g, "shape_label": s.label(), "state": st.to_json()});
            match roundtrip_judge(st) {
                RoundTrip::Ok => ok += 1,
                RoundTrip::FloatParse(_) => fp += 1,
                RoundTrip::Broken(w) => {
                    if broken.len() < 2 {
                        broken.push((w, case.clone()));
                    }
                }
            }
            svgs += 1;
            if let Some(w) = svg_judge(st) {
                if broken.len() < 4 {
                    broken.push((format!("{} {}: {}", g, s.label(), w), case));
                }
            }
        }
        (n, ok, fp, svgs, broken)
    });
    let (mut sn, mut sok, mut sfp, mut svgs) = (0u64, 0u64, 0u64, 0u64);
    for (a, b, c, d, broken) in sres {
        sn += a;
        sok += b;
        sfp += c;
        svgs += d;
        for (w, case) in broken {
            run.fail(None, &w, case);
        }
    }
    if sfp > 0 {
        run.fail(Some("serde-json-float-parse"), &format!("{} of {} structures do not read back identically", sfp, sn), json!({"count": sfp}));
    }
    // (vi) structures whose shapes carry values no constructor produces, built through the public
    // Rust API (so a field the writer skips cannot hide from the comparison)
    {
        use packing::{Atom2, LJShape2, LineShape, MolecularShape2, PackedState, PotentialState, LJ2};
        use packing::wallpaper::get_wallpaper_group;
        let mut custom: Vec<(String, AnyState)> = vec![];
        for g in ["p2", "p2mg", "p1g1"].iter() {
            let wg = get_wallpaper_group(wallpaper_enum(g)).unwrap();
            let lj = LJShape2 {
                name: "two species".to_string(),
                items: vec![
                    LJ2 { position: nalgebra::Point2::new(-0.4, 0.1), sigma: 1.3, epsilon: 3., cutoff: Some(2.75) },
                    LJ2 { position: nalgebra::Point2::new(0.6, -0.2), sigma: 0.8, epsilon: 0.4, cutoff: Some(2.75) },
                    LJ2 { position: nalgebra::Point2::new(0.1, 0.7), sigma: 1.1, epsilon: 1.7, cutoff: None },
                ],
            };
            custom.push((format!("{} custom LJ", g), AnyState::Lj(PotentialState::from_group(lj, &wg).unwrap())));
            let mol = MolecularShape2 { name: "dimer".to_string(), items: vec![Atom2::new(-0.5, 0., 0.8), Atom2::new(0.7, 0.25, 0.45)] };
            custom.push((format!("{} custom discs", g), AnyState::Mol(PackedState::from_group(mol, &wg).unwrap())));
            let poly = LineShape::from_radial("kite", vec![1., 0.625, 1.375, 0.625]).unwrap();
            custom.push((format!("{} custom polygon", g), AnyState::Poly(PackedState::from_group(poly, &wg).unwrap())));
        }
        let mut n_custom = 0u64;
        for (label, st) in custom.iter() {
            n_custom += 1;
            let doc = st.to_json();
            let case = json!({"engine": "document", "label": label, "state": doc});
            match roundtrip_judge(st) {
                RoundTrip::Ok | RoundTrip::FloatParse(_) => {}
                RoundTrip::Broken(w) => run.fail(None, &format!("{}: {}", label, w), case.clone()),
            }
            // every public field of the shape's components is in the document
            let keys: &[&str] = match st {
                AnyState::Lj(_) => &["position", "sigma", "epsilon", "cutoff"],
                AnyState::Mol(_) => &["position", "radius"],
                AnyState::Poly(_) => &["start", "end"],
            };
            for (i, item) in doc["shape"]["items"].as_array().map(|a| a.to_vec()).unwrap_or_default().iter().enumerate() {
                for k in keys.iter() {
                    if item.get(*k).is_none() {
                        run.fail(None, &format!("{}: item {} of the written shape lacks the field {:?}", label, i, k), case.clone());
                    }
                }
            }
            if let Some(w) = svg_judge(st) {
                run.fail(None, &format!("{}: {}", label, w), case.clone());
            }
        }
        run.set("custom_structures", n_custom);
    }
    // (v) every field matters: each leaf of the document is given a value no constructor
    // produces, the document is read, written and read again, and the leaf must still be there
    let mut leaf_checks = 0u64;
    let mut leaf_rejected = 0u64;
    for (g, spec) in [("p2mg", ShapeSpec::Polygon(3)), ("p2", ShapeSpec::Trimer(0.637556, 120., 1.)), ("p2gg", ShapeSpec::LjTrimer(0.637556, 120., 1.)), ("p1", ShapeSpec::LjCircle)].iter() {
        let p = Params { length: 7.25, ratio: 0.75, angle: if ita_family(g) == "Monoclinic" { 1.375 } else { PI / 2. }, x: 0.125, y: -0.375, phi: 1.25 };
        let base = state_json(g, &spec.json(), &p);
        let mut paths: Vec<String> = vec![];
        collect_leaf_paths(&base, String::new(), &mut paths);
        for path in paths.iter() {
            let mut doc = base.clone();
            let leaf = doc.pointer_mut(path).unwrap();
            let newv = match &*leaf {
                Value::Number(n) if n.is_f64() => {
                    let old = n.as_f64().unwrap();
                    let cands = [0.625, 1.375, 2.5];
                    json!(*cands.iter().find(|c| **c != old).unwrap())
                }
                Value::Number(_) => json!(3),
                Value::String(t) => json!(format!("{}_x", t)),
                Value::Bool(b) => json!(!*b),
                Value::Null => json!(2.5),
                _ => continue,
            };
            *leaf = newv.clone();
            leaf_checks += 1;
            let st = match AnyState::from_json(&doc) {
                Ok(s) => s,
                Err(_) => {
                    // the field is constrained (an enum tag, a single character): not a loss
                    leaf_rejected += 1;
                    continue;
                }
            };
            let case = json!({"engine": "document", "group": g, "shape_label": spec.label(), "leaf": path, "value": newv, "state": doc});
            let again = st.to_json();
            if again.pointer(path) != Some(&newv) {
                run.fail(None, &format!("{} {}: field {} = {} is not written back (reads back as {:?})", g, spec.label(), path, newv, again.pointer(path)), case.clone());
                continue;
            }
            // and through text
            let text = st.to_string();
            match serde_json::from_str::<Value>(&text).ok().and_then(|v| AnyState::from_json(&v).ok()) {
                None => run.fail(None, &format!("{} {}: document with {} = {} does not read back", g, spec.label(), path, newv), case),
                Some(back) => {
                    let b = back.to_json();
                    let got = b.pointer(path);
                    let same = match (got, &newv) {
                        (Some(Value::Number(x)), Value::Number(y)) => x.as_f64() == y.as_f64(),
                        (Some(x), y) => x == y,
                        _ => false,
                    };
                    if !same {
                        run.fail(None, &format!("{} {}: field {} = {} is lost in the text round trip (reads back as {:?})", g, spec.label(), path, newv, got), case);
                    }
                }
            }
        }
    }
    run.set("leaf_perturbations", leaf_checks);
    run.set("leaf_perturbations_rejected_by_the_reader", leaf_rejected);
    // (iv) the files the binary writes
    let mut file_checks = 0u64;
    for args in [vec!["--replications", "2", "--steps", "50", "p2mg", "polygon", "--sides", "5"], vec!["--replications", "2", "--steps", "50", "--potential", "LJ", "p2", "trimer"], vec!["--replications", "1", "--steps", "30", "p1g1", "circle"]].iter() {
        let a: Vec<String> = args.iter().map(|s| s.to_string()).collect();
        let r = cli::run_cli(&a, &[]);
        file_checks += 1;
        let case = json!({"engine": "cli", "args": a});
        match (r.status, r.json, r.svg) {
            (Some(0), Some(j), Some(svg)) => {
                let doc: Value = serde_json::from_str(&j).unwrap_or(Value::Null);
                match AnyState::from_json(&doc) {
                    Err(e) => run.fail(None, &format!("the written .json does not deserialise: {}", e), case),
                    Ok(st) => {
                        // the SVG next to it shows the same structure (1e-9: the JSON text was read
                        // through the dependency's inexact float parser)
                        match svg_uses(&svg) {
                            Err(e) => run.fail(None, &format!("written SVG not understood: {}", e), case),
                            Ok(u) => {
                                let mols = u.iter().filter(|(h, _)| h == "#mol").count();
                                if mols != st.relative().len() * 9 {
                                    run.fail(None, &format!("written SVG draws {} shapes for {} copies", mols, st.relative().len()), case);
                                }
                            }
                        }
                    }
                }
            }
            (s, _, _) => run.fail(None, &format!("binary failed: {:?}", s), case),
        }
    }
    // (what a run leaves in an --outfile that already exists reads back as its result)
    let shared_pairs = shared_outfile_histories(&mut run);
    run.set("ordered_command_pairs_sharing_an_outfile", shared_pairs);
    cli::cleanup();
    run.set("structures", sn);
    run.set("structures_roundtrip_exact", sok);
    run.set("structures_off_by_dependency_float_parse", sfp);
    run.set("svg_documents_checked", svgs);
    run.set("binary_outputs_checked", file_checks);
    run.set("evaluations", n + sn + svgs + file_checks);
    run.set("distinct_nontrivial", ok + sok + svgs);
    run.set("special_doubles", doubles.len() as u64);
    run.set("exhaustive", true);
    run.set("rule", "(i) doubles: sign x every 8th (quick) / every (thorough) binary exponent x 7 mantissa patterns, subnormals, k/10, k/3, k degrees, 1/k - each placed in each of the six parameter slots of 4 states (hard polygon, hard trimer, LJ trimer, LJ circle) where it is finite and admissible; (ii) structures: constructor-built, optimised (3 real hill climbs) and awkward-number lattice states for 7 groups x 11 shapes; each: to_string -> from_str -> identical re-serialisation, bit-identical score and placements; differences are classified leaf by leaf, and only doubles whose bare serde_json round trip fails are attributed to the known dependency finding; (iii) the SVG of every structure: all <use> matrices parsed with a correctly rounded parser and compared as a multiset with the Cartesian transforms of the copies and their 8 nearest images, and the 9 cell outlines with the lattice translates; (iv) files written by the binary; (v) leaf perturbation: every scalar leaf of 4 documents is set to a value no constructor produces and must survive read -> write -> read; (vi) 9 structures with two-species LJ molecules, unequal discs and a kite, built through the public Rust API. Non-trivial = exact round trips plus SVG documents compared");
    run.sample(json!({"slot": "x", "value": f64_bits_json(0.38813333333333333), "state": "p2 polygon4"}));
    run.require(ok > 100 && svgs > 50, "too few exact round trips / SVG documents");
    run.finish()
}

pub fn replay_document(case: &Value) -> ! {
    let doc = &case["state"];
    match AnyState::from_json(doc) {
        Err(e) => println!("the document does not deserialise: {}", e),
        Ok(st) => {
            println!("score(): {:?}  copies: {}", st.score(), st.total_shapes());
            match roundtrip_judge(&st) {
                RoundTrip::Ok => println!("JSON round trip: exact"),
                RoundTrip::FloatParse(n) => println!("JSON round trip: {} doubles off by the dependency's float parser (known finding)", n),
                RoundTrip::Broken(w) => println!("JSON round trip: BROKEN: {}", w),
            }
            match svg_judge(&st) {
                None => println!("SVG: shows the copies and their nearest images"),
                Some(w) => println!("SVG: WRONG: {}", w),
            }
            if let Some(path) = case.get("leaf").and_then(|l| l.as_str()) {
                println!("perturbed leaf {} = {} reads back as {:?}", path, case["value"], st.to_json().pointer(path));
            }
        }
    }
    std::process::exit(0)
}
