// Construction of real crate states from exact numbers (through serde_json::Value, never through
// decimal text), and read-back of their parameters.

use serde_json::{json, Value};

use packing::traits::*;
use packing::wallpaper::{get_wallpaper_group, WyckoffSite};
use packing::{LJShape2, LineShape, MolecularShape2, PackedState, PotentialState};

use crate::common::{machinery_error, par_map};
use crate::oracle::*;

pub type HardPoly = PackedState<LineShape>;
pub type HardMol = PackedState<MolecularShape2>;
pub type LjState = PotentialState<LJShape2>;

#[derive(Clone, Debug, PartialEq)]
pub enum ShapeSpec {
    Polygon(usize),
    Radial(Vec<f64>),
    Circle,
    Trimer(f64, f64, f64),
    LjCircle,
    LjTrimer(f64, f64, f64),
    /// A molecule of arbitrary particles (x, y, sigma, epsilon, cutoff), as a state file may hold
    LjCustom(String, Vec<(f64, f64, f64, f64, Option<f64>)>),
}

impl ShapeSpec {
    pub fn label(&self) -> String {
        match self {
            ShapeSpec::Polygon(n) => format!("polygon{}", n),
            ShapeSpec::Radial(r) => format!("radial{:?}", r),
            ShapeSpec::Circle => "circle".into(),
            ShapeSpec::Trimer(r, a, d) => format!("trimer({},{},{})", r, a, d),
            ShapeSpec::LjCircle => "lj-circle".into(),
            ShapeSpec::LjTrimer(r, a, d) => format!("lj-trimer({},{},{})", r, a, d),
            ShapeSpec::LjCustom(n, _) => format!("lj-custom({})", n),
        }
    }
    pub fn is_lj(&self) -> bool {
        matches!(self, ShapeSpec::LjCircle | ShapeSpec::LjTrimer(..) | ShapeSpec::LjCustom(..))
    }
    pub fn is_poly(&self) -> bool {
        matches!(self, ShapeSpec::Polygon(_) | ShapeSpec::Radial(_))
    }
    /// The shape as the crate's own constructor builds and serialises it.
    pub fn json(&self) -> Value {
        match self {
            ShapeSpec::Polygon(n) => serde_json::to_value(LineShape::polygon(*n).unwrap()).unwrap(),
            ShapeSpec::Radial(r) => serde_json::to_value(LineShape::from_radial("Radial", r.clone()).unwrap()).unwrap(),
            ShapeSpec::Circle => serde_json::to_value(MolecularShape2::circle()).unwrap(),
            ShapeSpec::Trimer(r, a, d) => serde_json::to_value(MolecularShape2::from_trimer(*r, *a, *d)).unwrap(),
            ShapeSpec::LjCircle => serde_json::to_value(LJShape2::circle()).unwrap(),
            ShapeSpec::LjTrimer(r, a, d) => serde_json::to_value(LJShape2::from_trimer(*r, *a, *d)).unwrap(),
            ShapeSpec::LjCustom(n, items) => serde_json::to_value(LJShape2 {
                name: n.clone(),
                items: items.iter().map(|&(x, y, sigma, epsilon, cutoff)| packing::LJ2 { position: nalgebra::Point2::new(x, y), sigma, epsilon, cutoff }).collect(),
            })
            .unwrap(),
        }
    }
    /// Oracle geometry from the shape's JSON (numbers only). For LJ shapes the discs have
    /// radius sigma/2.
    pub fn body(&self) -> Body {
        body_from_json(&self.json())
    }
}

pub fn body_from_json(shape: &Value) -> Body {
    let items = shape["items"].as_array().expect("shape items");
    let pt = |v: &Value| -> P2 { [v[0].as_f64().unwrap(), v[1].as_f64().unwrap()] };
    if items.is_empty() {
        return Body::Discs(vec![]);
    }
    if items[0].get("start").is_some() {
        Body::Poly(items.iter().map(|i| pt(&i["start"])).collect())
    } else if items[0].get("radius").is_some() {
        Body::Discs(items.iter().map(|i| (pt(&i["position"]), i["radius"].as_f64().unwrap())).collect())
    } else {
        Body::Discs(items.iter().map(|i| (pt(&i["position"]), i["sigma"].as_f64().unwrap() / 2.)).collect())
    }
}

/// The symmetry list of a group as the crate parses and serialises it.
pub fn wyckoff_json(group: &str) -> Value {
    let g = get_wallpaper_group(wallpaper_enum(group)).unwrap();
    serde_json::to_value(WyckoffSite::new(&g).unwrap()).unwrap()
}

pub fn family_name(group: &str) -> String {
    let g = get_wallpaper_group(wallpaper_enum(group)).unwrap();
    format!("{:?}", g.family)
}

#[derive(Clone, Debug, PartialEq)]
pub struct Params {
    pub length: f64,
    pub ratio: f64,
    pub angle: f64,
    pub x: f64,
    pub y: f64,
    pub phi: f64,
}

impl Params {
    pub fn as_vec(&self) -> Vec<f64> {
        vec![self.length, self.ratio, self.angle, self.x, self.y, self.phi]
    }
    pub fn json(&self) -> Value {
        json!({"length": self.length, "ratio": self.ratio, "angle": self.angle, "x": self.x, "y": self.y, "phi": self.phi})
    }
    pub fn from_json(v: &Value) -> Params {
        Params {
            length: v["length"].as_f64().unwrap(),
            ratio: v["ratio"].as_f64().unwrap(),
            angle: v["angle"].as_f64().unwrap(),
            x: v["x"].as_f64().unwrap(),
            y: v["y"].as_f64().unwrap(),
            phi: v["phi"].as_f64().unwrap(),
        }
    }
    pub fn lattice(&self) -> Lattice {
        Lattice::new(self.length, self.ratio, self.angle)
    }
}

/// Full state document for (group, shape, parameters); `name`/`family` as the crate labels them.
pub fn state_json(group: &str, shape: &Value, p: &Params) -> Value {
    let g = get_wallpaper_group(wallpaper_enum(group)).unwrap();
    let fam = format!("{:?}", g.family);
    json!({
        "wallpaper": {"name": g.name, "family": fam},
        "shape": shape,
        "cell": {"length": p.length, "ratio": p.ratio, "angle": p.angle, "family": fam},
        "occupied_sites": [{"wyckoff": wyckoff_json(group), "x": p.x, "y": p.y, "angle": p.phi}],
    })
}

/// Cheaper variant when many states share group and shape: patch the six numbers.
pub struct StateTemplate {
    doc: Value,
}

impl StateTemplate {
    pub fn new(group: &str, shape: &Value) -> StateTemplate {
        let p = Params { length: 1., ratio: 1., angle: 1., x: 0., y: 0., phi: 0. };
        StateTemplate { doc: state_json(group, shape, &p) }
    }
    pub fn with(&self, p: &Params) -> Value {
        let mut d = self.doc.clone();
        d["cell"]["length"] = json!(p.length);
        d["cell"]["ratio"] = json!(p.ratio);
        d["cell"]["angle"] = json!(p.angle);
        d["occupied_sites"][0]["x"] = json!(p.x);
        d["occupied_sites"][0]["y"] = json!(p.y);
        d["occupied_sites"][0]["angle"] = json!(p.phi);
        d
    }
}

/// A second occupied site appended to a one-site document: `wyckoff` is the symmetry list of the
/// new site (the group's general site, or the identity alone for a site of multiplicity one).
pub fn with_second_site(doc: &Value, wyckoff: &Value, x: f64, y: f64, phi: f64) -> Value {
    let mut d = doc.clone();
    let site = json!({"wyckoff": wyckoff, "x": x, "y": y, "angle": phi});
    d["occupied_sites"].as_array_mut().unwrap().push(site);
    d
}

pub fn params_of_json(doc: &Value) -> Params {
    // (a parameter that is not a finite number is written as null: read as NaN, which every range
    // check refuses)
    let num = |v: &Value| v.as_f64().unwrap_or(f64::NAN);
    Params {
        length: num(&doc["cell"]["length"]),
        ratio: num(&doc["cell"]["ratio"]),
        angle: num(&doc["cell"]["angle"]),
        x: num(&doc["occupied_sites"][0]["x"]),
        y: num(&doc["occupied_sites"][0]["y"]),
        phi: num(&doc["occupied_sites"][0]["angle"]),
    }
}

/// A real state of any of the three concrete kinds.
#[derive(Clone, Debug)]
pub enum AnyState {
    Poly(HardPoly),
    Mol(HardMol),
    Lj(LjState),
}

impl AnyState {
    pub fn from_json(doc: &Value) -> Result<AnyState, String> {
        let items = doc["shape"]["items"].as_array().ok_or("no shape items")?;
        let first = items.get(0).ok_or("empty shape")?;
        if first.get("start").is_some() {
            serde_json::from_value::<HardPoly>(doc.clone()).map(AnyState::Poly).map_err(|e| e.to_string())
        } else if first.get("radius").is_some() {
            serde_json::from_value::<HardMol>(doc.clone()).map(AnyState::Mol).map_err(|e| e.to_string())
        } else {
            serde_json::from_value::<LjState>(doc.clone()).map(AnyState::Lj).map_err(|e| e.to_string())
        }
    }
    /// Read a document as the same concrete kind as `like` (no inspection of the document).
    pub fn from_json_as(like: &AnyState, doc: &Value) -> Result<AnyState, String> {
        match like {
            AnyState::Poly(_) => serde_json::from_value::<HardPoly>(doc.clone()).map(AnyState::Poly).map_err(|e| e.to_string()),
            AnyState::Mol(_) => serde_json::from_value::<HardMol>(doc.clone()).map(AnyState::Mol).map_err(|e| e.to_string()),
            AnyState::Lj(_) => serde_json::from_value::<LjState>(doc.clone()).map(AnyState::Lj).map_err(|e| e.to_string()),
        }
    }
    pub fn from_group(group: &str, shape: &ShapeSpec) -> AnyState {
        let g = get_wallpaper_group(wallpaper_enum(group)).unwrap();
        match shape {
            ShapeSpec::Polygon(n) => AnyState::Poly(PackedState::from_group(LineShape::polygon(*n).unwrap(), &g).unwrap()),
            ShapeSpec::Radial(r) => AnyState::Poly(PackedState::from_group(LineShape::from_radial("Radial", r.clone()).unwrap(), &g).unwrap()),
            ShapeSpec::Circle => AnyState::Mol(PackedState::from_group(MolecularShape2::circle(), &g).unwrap()),
            ShapeSpec::Trimer(r, a, d) => AnyState::Mol(PackedState::from_group(MolecularShape2::from_trimer(*r, *a, *d), &g).unwrap()),
            ShapeSpec::LjCircle => AnyState::Lj(PotentialState::from_group(LJShape2::circle(), &g).unwrap()),
            ShapeSpec::LjTrimer(r, a, d) => AnyState::Lj(PotentialState::from_group(LJShape2::from_trimer(*r, *a, *d), &g).unwrap()),
            ShapeSpec::LjCustom(..) => AnyState::Lj(PotentialState::from_group(serde_json::from_value::<LJShape2>(shape.json()).unwrap(), &g).unwrap()),
        }
    }
    pub fn score(&self) -> Option<f64> {
        match self {
            AnyState::Poly(s) => s.score(),
            AnyState::Mol(s) => s.score(),
            AnyState::Lj(s) => s.score(),
        }
    }
    pub fn total_shapes(&self) -> usize {
        match self {
            AnyState::Poly(s) => s.total_shapes(),
            AnyState::Mol(s) => s.total_shapes(),
            AnyState::Lj(s) => s.total_shapes(),
        }
    }
    pub fn to_json(&self) -> Value {
        match self {
            AnyState::Poly(s) => serde_json::to_value(s).unwrap(),
            AnyState::Mol(s) => serde_json::to_value(s).unwrap(),
            AnyState::Lj(s) => serde_json::to_value(s).unwrap(),
        }
    }
    pub fn to_string(&self) -> String {
        match self {
            AnyState::Poly(s) => serde_json::to_string(s).unwrap(),
            AnyState::Mol(s) => serde_json::to_string(s).unwrap(),
            AnyState::Lj(s) => serde_json::to_string(s).unwrap(),
        }
    }
    pub fn cartesian(&self) -> Vec<Aff> {
        match self {
            AnyState::Poly(s) => s.cartesian_positions().map(|t| Aff::from_t2(&t)).collect(),
            AnyState::Mol(s) => s.cartesian_positions().map(|t| Aff::from_t2(&t)).collect(),
            AnyState::Lj(s) => s.cartesian_positions().map(|t| Aff::from_t2(&t)).collect(),
        }
    }
    /// The points (polygon corners, disc or particle centres) of every copy as the crate's own
    /// shape transform places them in Cartesian space.
    pub fn placed_points(&self) -> Vec<Vec<P2>> {
        // (for outlines also the midpoint of every line: which corners a line joins is part of
        // the shape)
        fn pts<T: serde::Serialize>(shape: &T) -> Vec<P2> {
            let v = serde_json::to_value(shape).unwrap_or(Value::Null);
            let mut out = body_from_json(&v).points();
            if let Some(items) = v["items"].as_array() {
                for it in items {
                    if let (Some(a), Some(b)) = (it.get("start"), it.get("end")) {
                        let f = |p: &Value, i: usize| p[i].as_f64().unwrap_or(f64::NAN);
                        out.push([0.5 * (f(a, 0) + f(b, 0)), 0.5 * (f(a, 1) + f(b, 1))]);
                    }
                }
            }
            out
        }
        match self {
            AnyState::Poly(s) => s.cartesian_positions().map(|t| pts(&s.shape.transform(&t))).collect(),
            AnyState::Mol(s) => s.cartesian_positions().map(|t| pts(&s.shape.transform(&t))).collect(),
            AnyState::Lj(s) => s.cartesian_positions().map(|t| pts(&s.shape.transform(&t))).collect(),
        }
    }
    pub fn relative(&self) -> Vec<Aff> {
        match self {
            AnyState::Poly(s) => s.relative_positions().map(|t| Aff::from_t2(&t)).collect(),
            AnyState::Mol(s) => s.relative_positions().map(|t| Aff::from_t2(&t)).collect(),
            AnyState::Lj(s) => s.relative_positions().map(|t| Aff::from_t2(&t)).collect(),
        }
    }
    pub fn svg(&self) -> String {
        match self {
            AnyState::Poly(s) => s.as_svg().to_string(),
            AnyState::Mol(s) => s.as_svg().to_string(),
            AnyState::Lj(s) => s.as_svg().to_string(),
        }
    }
    /// Set one optimiser parameter of the live object through its basis handle (clamped by the crate).
    pub fn set_basis_value(&self, index: usize, value: f64) {
        match self {
            AnyState::Poly(s) => s.generate_basis()[index].set_value(value),
            AnyState::Mol(s) => s.generate_basis()[index].set_value(value),
            AnyState::Lj(s) => s.generate_basis()[index].set_value(value),
        }
    }
    /// Current values of the optimiser's parameters, in the crate's own basis order.
    pub fn basis_values(&self) -> Vec<f64> {
        match self {
            AnyState::Poly(s) => s.generate_basis().iter().map(|b| b.get_value()).collect(),
            AnyState::Mol(s) => s.generate_basis().iter().map(|b| b.get_value()).collect(),
            AnyState::Lj(s) => s.generate_basis().iter().map(|b| b.get_value()).collect(),
        }
    }
}

// ------------------------------------------------------------------------------------------
// depth-2 histories of whole states on one thread

pub struct HistoryMismatch {
    pub first: usize,
    pub second: usize,
    pub alone: Option<f64>,
    pub after: Option<f64>,
}

fn on_fresh_thread<R: Send, F: FnOnce() -> R + Send>(f: F) -> R {
    std::thread::scope(|s| s.spawn(f).join().unwrap_or_else(|_| machinery_error("a state evaluation panicked on its own thread")))
}

/// The score of every document read and scored on a thread of its own (nothing was evaluated
/// on that thread before).
pub fn scores_alone(docs: &[Value]) -> Vec<Option<f64>> {
    par_map(docs, |_, d| on_fresh_thread(|| AnyState::from_json(d).unwrap_or_else(|e| machinery_error(&e)).score()))
}

/// Every ordered pair (i, j), i != j, of the documents: on a fresh thread read and score i, then
/// read and score j. What j scores must be, bit for bit, what it scores on a thread of its own:
/// a score is a function of the state alone, whatever the thread evaluated before.
pub fn ordered_pair_histories(docs: &[Value]) -> (u64, Vec<HistoryMismatch>) {
    let alone = scores_alone(docs);
    let idx: Vec<usize> = (0..docs.len()).collect();
    let res = par_map(&idx, |_, &i| {
        let mut bad = vec![];
        let mut n = 0u64;
        for j in 0..docs.len() {
            if i == j {
                continue;
            }
            n += 1;
            let after = on_fresh_thread(|| {
                let _ = AnyState::from_json(&docs[i]).unwrap_or_else(|e| machinery_error(&e)).score();
                AnyState::from_json(&docs[j]).unwrap_or_else(|e| machinery_error(&e)).score()
            });
            if after.map(f64::to_bits) != alone[j].map(f64::to_bits) {
                bad.push(HistoryMismatch { first: i, second: j, alone: alone[j], after });
            }
        }
        (n, bad)
    });
    let mut total = 0;
    let mut out = vec![];
    for (n, b) in res {
        total += n;
        out.extend(b);
    }
    (total, out)
}
