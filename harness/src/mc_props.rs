// Properties decided by the scripted-environment explorer: C05, C06, C07, C18, C19, C20 (library part).

use std::collections::HashSet;

use serde_json::{json, Value};

use crate::common::*;
use crate::mcx::*;

#[derive(Clone)]
pub struct Job {
    pub cfg: Cfg,
    pub spec: ProbeSpec,
    /// baseline answer pattern
    pub pattern: Vec<Option<f64>>,
    pub default_q: f64,
    pub max_dev: usize,
    /// also run the full product to this depth (0 = no)
    pub product_depth: usize,
    /// also run the full product over an absolute score ladder {0, 1, 2, invalid} from a start
    /// score of 2 to this depth (0 = no): histories where a proposal lies between the current
    /// score and an earlier, higher one
    pub ladder_depth: usize,
}

#[derive(Default)]
pub struct JobOut {
    pub runs: u64,
    pub steps: u64,
    pub distinct: u64,
    pub accepts: u64,
    pub rejects: u64,
    pub ambiguous: u64,
    pub panics: u64,
    pub noncalibrated: u64,
    pub max_dev_done: usize,
    pub fails: Vec<(Option<&'static str>, String, Value)>,
    pub fail_count: u64,
    pub sample: Option<Value>,
}

pub type Judge = dyn Fn(&Cfg, &ProbeSpec, &[StepScript], &Obs, &Analysis) -> Vec<(Option<&'static str>, String)> + Sync;

pub fn case_json(cfg: &Cfg, spec: &ProbeSpec, script: &[StepScript]) -> Value {
    json!({"engine": "mcx", "cfg": cfg.json(), "probe": spec.json(), "script": script_json(script)})
}

fn step_bounds(cfg: &Cfg, spec: &ProbeSpec) -> Vec<f64> {
    // the proposal is value + move, rounded: allow a few ulps of the value on top of the bound
    spec.bounds.iter().map(|(lo, hi)| cfg.max_step * (hi - lo) / 2. * (1. + 1e-12) + 8. * f64::EPSILON * lo.abs().max(hi.abs()).max(1.)).collect()
}

pub fn run_job(job: &Job, judge: &Judge) -> JobOut {
    let mut out = JobOut::default();
    let mut seen: HashSet<u64> = HashSet::new();
    let bounds = step_bounds(&job.cfg, &job.spec);
    let len = job.cfg.steps as usize;
    let mut one = |script: &[StepScript], out: &mut JobOut| {
        let obs = run_script(&job.cfg, &job.spec, script);
        let an = analyse(&job.cfg, &obs, Some(&bounds));
        out.runs += 1;
        out.steps += obs.proposals.len() as u64;
        if obs.untagged_draws > 0 {
            out.noncalibrated += 1;
        }
        if obs.panic.is_some() {
            out.panics += 1;
        }
        if seen.insert(obs_fingerprint(&obs)) {
            out.distinct += 1;
        }
        if an.unique_word.is_some() {
            out.accepts += an.accepts as u64;
            out.rejects += an.rejects as u64;
        } else {
            out.ambiguous += 1;
        }
        if out.sample.is_none() && out.runs == 7 {
            out.sample = Some(json!({"cfg": job.cfg.json(), "script": script_json(script),
                "observed_proposals": obs.proposals.iter().map(|p| json!({"params": p.params, "answer": p.answer})).collect::<Vec<_>>(),
                "returned": obs.final_params, "accept_word": an.unique_word}));
        }
        for (key, what) in judge(&job.cfg, &job.spec, script, &obs, &an) {
            out.fail_count += 1;
            if out.fails.len() < 2 {
                // replay determinism: the same script must show the same thing twice
                let again = run_script(&job.cfg, &job.spec, script);
                if obs_fingerprint(&again) != obs_fingerprint(&obs) {
                    machinery_error("replay of a failing script diverged");
                }
                out.fails.push((key, what, case_json(&job.cfg, &job.spec, script)));
            }
        }
    };
    let alpha = Alphabet { default_q: job.default_q, ..Alphabet::standard(job.spec.handles()).with_pattern(job.pattern.clone()) };
    for_each_script(&alpha, len, job.max_dev, |s, _| one(s, &mut out));
    out.max_dev_done = job.max_dev;
    if job.product_depth > 0 && len > 0 {
        let depth = job.product_depth.min(len);
        // full product on the first `depth` steps, defaults after
        let qs = [0., 0.75];
        let ks = [0u64, thr_k_of(THRESHOLDS[4])];
        let offs = [Some(0.), Some(-1.001), Some(-100.), None];
        let n = job.spec.handles().min(2);
        let tail: Vec<StepScript> = (depth + 1..=len).map(|t| alpha.default_step(t)).collect();
        for_each_product(n, &qs, &ks, &offs, depth, false, |head| {
            let mut s = head.to_vec();
            s.extend(tail.iter().cloned());
            one(&s, &mut out);
        });
    }
    drop(one);
    if job.ladder_depth > 0 && len > 0 {
        let depth = job.ladder_depth.min(len);
        // two ladders: ordinary scores below the start score, and ordinary scores reached from an
        // astronomically bad start (LJ states with nearly coinciding particles score -1e24)
        for (s0, offs) in [(2., [Some(0.), Some(1.), Some(2.), None]), (-1e24, [Some(0.25), Some(0.5), Some(1.), None])].iter() {
        let lspec = job.spec.clone().with_s0(*s0);
        let qs = [0.25, 0.75];
        let ks = [0u64, thr_k_of(THRESHOLDS[4])];
        let n = job.spec.handles().min(2);
        let tail: Vec<StepScript> = (depth + 1..=len).map(|t| alpha.default_step(t)).collect();
        let bounds = step_bounds(&job.cfg, &lspec);
        for_each_product(n, &qs, &ks, &offs[..], depth, true, |head| {
            let mut s = head.to_vec();
            s.extend(tail.iter().map(|x| StepScript { answer: x.answer.map(|a| a + 10.), ..*x }));
            let obs = run_script(&job.cfg, &lspec, &s);
            let an = analyse(&job.cfg, &obs, Some(&bounds));
            out.runs += 1;
            out.steps += obs.proposals.len() as u64;
            if seen.insert(obs_fingerprint(&obs)) {
                out.distinct += 1;
            }
            if an.unique_word.is_some() {
                out.accepts += an.accepts as u64;
                out.rejects += an.rejects as u64;
            } else {
                out.ambiguous += 1;
            }
            for (key, what) in judge(&job.cfg, &lspec, &s, &obs, &an) {
                out.fail_count += 1;
                if out.fails.len() < 2 {
                    out.fails.push((key, what, case_json(&job.cfg, &lspec, &s)));
                }
            }
        });
        }
    }
    out
}

pub struct Totals {
    pub runs: u64,
    pub steps: u64,
    pub distinct: u64,
    pub accepts: u64,
    pub rejects: u64,
    pub ambiguous: u64,
    pub panics: u64,
    pub fail_count: u64,
}

/// The same jobs with the optimiser brought to its configuration through setter calls on a used
/// builder instead of a fresh one (every `every`-th job whose configuration setters can reach).
pub fn with_builder_histories(jobs: Vec<Job>, every: usize) -> Vec<Job> {
    let mut out = vec![];
    for (i, j) in jobs.into_iter().enumerate() {
        if i % every == 0 && j.cfg.reachable_by_setters() {
            for h in 1..=2u32 {
                let mut v = j.clone();
                v.cfg = v.cfg.with_history(h);
                v.product_depth = 0;
                v.ladder_depth = 0;
                out.push(v);
            }
        }
        out.push(j);
    }
    out
}

/// Every order of the seven setter calls on a used builder (5040 per configuration): the run under
/// the job's baseline script and its first single-deviation scripts is compared with the run of
/// the optimiser the argument parser builds for the same values; an order that behaves
/// differently is put through the complete job and judged like any other configuration.
pub fn setter_orders(run: &mut Run, jobs: &[Job], judge: &Judge) {
    calibrate();
    let prev_hook = std::panic::take_hook();
    std::panic::set_hook(Box::new(|_| {}));
    let usable: Vec<&Job> = jobs.iter().filter(|j| j.cfg.reachable_by_setters() && j.cfg.history == 0).collect();
    let outs = par_map(&usable, |_, j| {
        let alpha = Alphabet { default_q: j.default_q, ..Alphabet::standard(j.spec.handles()).with_pattern(j.pattern.clone()) };
        let mut scripts: Vec<Vec<StepScript>> = vec![];
        for_each_script(&alpha, j.cfg.steps as usize, 1, |s, _| {
            if scripts.len() < 6 {
                scripts.push(s.to_vec());
            }
        });
        let base: Vec<u64> = scripts.iter().map(|s| obs_fingerprint(&run_script(&j.cfg, &j.spec, s))).collect();
        let mut differing = 0u64;
        let mut runs = 0u64;
        let mut fails: Vec<(Option<&'static str>, String, Value)> = vec![];
        let mut fail_count = 0u64;
        for k in 0..SETTER_ORDERS {
            let cfg = j.cfg.with_history(SETTER_ORDERS_BASE + k as u32);
            let mut differs = false;
            for (s, b) in scripts.iter().zip(base.iter()) {
                runs += 1;
                if obs_fingerprint(&run_script(&cfg, &j.spec, s)) != *b {
                    differs = true;
                    break;
                }
            }
            if differs {
                differing += 1;
                if fails.len() < 2 {
                    let mut v = (*j).clone();
                    v.cfg = cfg;
                    v.product_depth = 0;
                    v.ladder_depth = 0;
                    let o = run_job(&v, judge);
                    runs += o.runs;
                    fail_count += o.fail_count;
                    let order: Vec<&str> = setter_order(k).iter().map(|&i| SETTER_NAMES[i]).collect();
                    for (key, what, case) in o.fails {
                        if fails.len() < 2 {
                            fails.push((key, format!("builder setters called in the order {:?}: {}", order, what), case));
                        }
                    }
                }
            }
        }
        (runs, differing, fail_count, fails)
    });
    std::panic::set_hook(prev_hook);
    let (mut runs, mut differing, mut fc) = (0u64, 0u64, 0u64);
    for (r, d, f, fails) in outs {
        runs += r;
        differing += d;
        fc += f;
        for (k, w, c) in fails {
            run.fail(k, &w, c);
        }
    }
    run.set("setter_order_configurations", usable.len() as u64);
    run.set("setter_orders_per_configuration", SETTER_ORDERS as u64);
    run.set("setter_order_runs", runs);
    run.set("setter_orders_behaving_unlike_the_parsed_configuration", differing);
    run.set("setter_order_failing_runs", fc);
}

/// An even selection of the jobs whose configuration setters can reach, preferring those with
/// several temperature loops.
pub fn pick_for_setter_orders(jobs: &[Job], n: usize) -> Vec<Job> {
    let mut pool: Vec<&Job> = jobs.iter().filter(|j| j.cfg.reachable_by_setters() && j.cfg.history == 0 && j.cfg.steps > j.cfg.inner).collect();
    if pool.is_empty() {
        pool = jobs.iter().filter(|j| j.cfg.reachable_by_setters() && j.cfg.history == 0).collect();
    }
    let stride = (pool.len() / n.max(1)).max(1);
    pool.into_iter().step_by(stride).take(n).cloned().collect()
}

pub fn run_jobs(run: &mut Run, jobs: &[Job], judge: &Judge) -> Totals {
    calibrate();
    let prev_hook = std::panic::take_hook();
    std::panic::set_hook(Box::new(|_| {}));
    let outs = par_map(jobs, |_, j| run_job(j, judge));
    std::panic::set_hook(prev_hook);
    let mut t = Totals { runs: 0, steps: 0, distinct: 0, accepts: 0, rejects: 0, ambiguous: 0, panics: 0, fail_count: 0 };
    let mut noncal = 0;
    for (i, o) in outs.into_iter().enumerate() {
        t.runs += o.runs;
        t.steps += o.steps;
        t.distinct += o.distinct;
        t.accepts += o.accepts;
        t.rejects += o.rejects;
        t.ambiguous += o.ambiguous;
        t.panics += o.panics;
        t.fail_count += o.fail_count;
        noncal += o.noncalibrated;
        if let Some(s) = o.sample {
            if i % (jobs.len() / 6 + 1) == 0 {
                run.sample(s);
            }
        }
        for (k, w, c) in o.fails {
            run.fail(k, &w, c);
        }
    }
    // draws outside the three tagged seams are served from the real (seeded) generator, so a run is
    // still a deterministic function of its script; they are only counted
    run.set("runs_with_untagged_draws", noncal);
    run.set("configurations", jobs.len() as u64);
    run.set("states", t.distinct);
    run.set("transitions", t.steps);
    run.set("traces_validated_against_impl", t.runs);
    run.set("runs", t.runs);
    run.set("accepted_steps_in_uniquely_decided_runs", t.accepts);
    run.set("rejected_steps_in_uniquely_decided_runs", t.rejects);
    run.set("runs_with_ambiguous_history", t.ambiguous);
    run.set("runs_that_panicked", t.panics);
    run.set("failing_runs", t.fail_count);
    t
}

fn patterns() -> Vec<Vec<Option<f64>>> {
    vec![vec![Some(0.)], vec![None], vec![Some(0.), None], vec![Some(0.), Some(-1.001)]]
}

fn steps_grid(tier: Tier) -> Vec<(u64, u64)> {
    let mut v = vec![(4, 4), (4, 2), (4, 1), (6, 2), (6, 3), (7, 3), (5, 9)];
    if tier == Tier::Thorough {
        v.extend(vec![(8, 2), (12, 3), (12, 4), (10, 1), (9, 4)]);
    }
    v
}

fn violated_common(obs: &Obs, an: &Analysis) -> bool {
    // runs whose shape the monitor cannot interpret belong to C06/C20, not to the property at hand
    obs.panic.is_some() || an.not_derived_at.is_some() || an.final_mismatch
}

// ------------------------------------------------------------------------------------------
// C06

pub fn c06(tier: Tier) -> ! {
    let mut run = Run::new("C06", tier, "model_checking");
    let mut jobs = vec![];
    for n in 1..=3usize {
        for &(steps, inner) in steps_grid(tier).iter() {
            for &(kt, fin, ratio) in [(0., None, Some(0.)), (0.1, Some(0.001), None), (1e300, None, Some(0.)), (1., None, Some(0.5))].iter() {
              for &conv in [None, Some(1e-3), Some(f64::INFINITY)].iter() {
                if conv.is_some() && !(inner <= 2 && (kt == 0. || kt == 1e300)) {
                    continue;
                }
                for &ms in [1., 0.5, 0.01, 2e-16].iter() {
                    for (pi, pat) in patterns().into_iter().enumerate() {
                        if tier == Tier::Quick && (pi + n + steps as usize) % 2 == 1 {
                            continue;
                        }
                        for spec in [ProbeSpec::standard(n), ProbeSpec::interior(n), ProbeSpec::standard(n).raw(), ProbeSpec::outside(n), ProbeSpec::near_bound(n), ProbeSpec::interior(n).aliased(), ProbeSpec::inverted(n), ProbeSpec::near_zero(n)].iter() {
                            // (moves below machine epsilon only from starts where they are representable)
                            if ms == 2e-16 && spec.start != ProbeSpec::near_bound(n).start && spec.start != ProbeSpec::interior(n).start {
                                continue;
                            }
                            jobs.push(Job {
                                cfg: Cfg { steps: if conv.is_some() { steps.max(8) } else { steps }, inner, kt_start: kt, kt_finish: fin, kt_ratio: ratio, max_step: ms, convergence: conv, history: 0 },
                                spec: spec.clone(),
                                pattern: pat.clone(),
                                default_q: if ms >= 0.5 { 0. } else { 0.75 },
                                max_dev: tier.pick(1, 2),
                                product_depth: if n == 2 && steps == 4 && ms == 1. && pi == 0 { tier.pick(3, 4) } else { 0 },
                                ladder_depth: 0,
                            });
                        }
                    }
                }
              }
            }
        }
    }
    let plain_jobs = jobs.clone();
    let mut jobs = with_builder_histories(jobs, 7);
    // long jammed loops: several hundred rejections in a row inside one loop, then another loop
    // (the baseline script only; a shortcut taken after a long streak shows in the second loop)
    for &(steps, inner) in [(1100u64, 550u64), (1300, 650), (2100, 1050)].iter() {
        for n in 2..=3usize {
            for pat in [vec![None], vec![None, None, None, None, None, None, Some(0.)]].iter() {
                jobs.push(Job {
                    cfg: Cfg { steps, inner, kt_start: 0., kt_finish: None, kt_ratio: Some(0.), max_step: 0.01, convergence: None, history: 0 },
                    spec: ProbeSpec::interior(n),
                    pattern: pat.clone(),
                    default_q: 0.75,
                    max_dev: 0,
                    product_depth: 0,
                    ladder_depth: 0,
                });
            }
        }
    }
    let wide_scripts: Vec<(Cfg, ProbeSpec, Vec<StepScript>)> = {
        // a state with 300 parameters: accepted and refused proposals on parameters beyond the
        // 256th, interleaved with ones below
        let n = 300usize;
        let spec = ProbeSpec { bounds: vec![(-1., 1.); n], start: (0..n).map(|i| -0.5 + i as f64 / 400.).collect(), s0: 0., memo: true, alias: false };
        let mut v = vec![];
        for order in [vec![280usize, 290, 5, 299, 34, 290], vec![256, 0, 257, 1, 258, 2], vec![299, 299, 43, 43, 270, 14]].iter() {
            for refused in 0..order.len() {
                let cfg = Cfg { steps: order.len() as u64, inner: 3, kt_start: 0., kt_finish: None, kt_ratio: Some(0.), max_step: 0.05, convergence: None, history: 0 };
                let script: Vec<StepScript> = order.iter().enumerate().map(|(t, &i)| StepScript { index: i, q: 0.75, thr_k: thr_k_of(0.5), answer: if t == refused { None } else { Some((t + 1) as f64) } }).collect();
                v.push((cfg, spec.clone(), script));
            }
        }
        v
    };
    let judge = |_cfg: &Cfg, _spec: &ProbeSpec, _s: &[StepScript], obs: &Obs, an: &Analysis| -> Vec<(Option<&'static str>, String)> {
        let mut v = vec![];
        // a proposal without a score cannot become the current state in any reading (there is no
        // score to carry on with): when every consistent history needs one to have been taken
        // over, a rejected move left its trace
        if an.not_derived_at.is_none() && an.flags_all & F_NONE_ACCEPTED != 0 {
            v.push((None, format!("after a proposal without a score (first at step {}) the run continues from the proposed state, not from the state before it: the rejected move was not undone", an.first_flag_step)));
            return v;
        }
        if obs.panic.is_some() {
            return v;
        }
        if let Some(t) = an.not_derived_at {
            v.push((None, format!("proposal {} differs in more than one parameter from every state the run could be in (accepted proposals and restored states so far): a rejected move left a trace or more than one parameter moved", t)));
        } else if an.final_mismatch {
            v.push((None, "the returned state is neither the last accepted proposal nor the input: not the state of any consistent accept/reject history".to_string()));
        }
        // a run that leaves through the convergence exit hands back what the same run hands back
        // when it simply has no steps left at that point (a schedule given by a ratio or by a zero
        // start does not depend on the step count)
        let m = obs.proposals.len();
        let ie = _cfg.inner_eff() as usize;
        if v.is_empty() && _cfg.convergence.is_some() && m > 0 && (m as u64) < _cfg.steps && m % ie == 0 && (_cfg.kt_ratio.is_some() || _cfg.kt_start == 0.) && _s.len() >= m {
            let plain = Cfg { steps: m as u64, convergence: None, ..(*_cfg).clone() };
            let other = run_script(&plain, _spec, &_s[..m]);
            let bits = |p: &Option<Vec<f64>>| p.as_ref().map(|x| x.iter().map(|f| f.to_bits()).collect::<Vec<u64>>());
            if other.panic.is_none() && other.proposals.len() == m && bits(&other.final_params) != bits(&obs.final_params) {
                v.push((None, format!("the run left through the convergence exit after {} proposals and handed back {:?} (score {:?}); the same {} proposals as a complete run hand back {:?} (score {:?})", m, obs.final_params, obs.final_score, m, other.final_params, other.final_score)));
            }
        }
        v
    };
    let t = run_jobs(&mut run, &jobs, &judge);
    for (cfg, spec, script) in wide_scripts.iter() {
        let obs = run_script(cfg, spec, script);
        let an = analyse(cfg, &obs, None);
        for (_, what) in judge(cfg, spec, script, &obs, &an) {
            run.fail(None, &format!("state with 300 parameters: {}", what), case_json(cfg, spec, script));
        }
    }
    run.set("wide_state_scripts", wide_scripts.len() as u64);
    setter_orders(&mut run, &pick_for_setter_orders(&plain_jobs, tier.pick(8, 32)), &judge);
    // real hard and LJ states under the crate's own generator (supplementary: the seeds are a sample)
    let rr = crate::rsx::real_runs(tier);
    for (w, c) in rr.c06 {
        run.fail(None, &w, c);
    }
    run.set("real_state_runs", rr.runs);
    run.set("real_state_steps_judged", rr.steps);
    run.set("max_deviations", tier.pick(1, 2) as u64);
    run.set("exhaustive", true);
    run.set("explanation", "Every script (index, displacement, threshold, answer per step) with at most max_deviations departures from 4 baseline answer patterns (all better, all invalid, alternating better/invalid, alternating better/slightly worse), plus the full product over a reduced alphabet to depth 3/4, is executed on the real optimiser with 1-3 shared parameters starting on and off their bounds. A reference model tracks every state the run can be in (each proposal accepted or rejected) and requires every proposal to differ from one of them in at most one parameter, bit for bit, and the returned state to be one of them. Supplementary sampling (labelled as such, it decides nothing on its own): complete real runs of hard and LJ states in all 7 groups under the crate's own seeded generator, every step judged by the same reference model.");
    run.assume("the probe State answers consistently (same parameters, same score); rand 0.7.3 decodes the scripted words as calibrated at start-up");
    run.require(t.accepts > 0 && t.rejects > 0, "both accepted and rejected steps must occur");
    run.finish()
}

// ------------------------------------------------------------------------------------------
// C07

pub fn accept_probability(cfg: &Cfg, spec: &ProbeSpec, t: usize, d: f64) -> Result<(f64, u64), String> {
    accept_probability_h(cfg, spec, t, d, false)
}

/// `rejecting`: the steps before t are invalid proposals (all rejected) instead of improvements.
/// The score difference the optimiser actually sees at step t for a requested drop d (the
/// scripted answer is rounded).
pub fn effective_drop(spec: &ProbeSpec, t: usize, d: f64, rejecting: bool) -> f64 {
    let base = if rejecting { spec.s0 } else { (t - 1) as f64 };
    base - (base - d)
}

pub fn accept_probability_h(cfg: &Cfg, spec: &ProbeSpec, t: usize, d: f64, rejecting: bool) -> Result<(f64, u64), String> {
    // all steps but t are decided whatever the temperature; step t is worse by d
    let n = spec.n();
    let len = cfg.steps as usize;
    let mk = |k: u64| -> Vec<StepScript> {
        (1..=len)
            .map(|s| StepScript {
                index: (s - 1) % n,
                // a drifting walk that never revisits a parameter vector (the landscape is memoised)
                // (when the earlier proposals are rejected the state does not move, so every
                // proposal needs its own displacement)
                q: if rejecting { 0.55 + 0.02 * s as f64 } else if ((s - 1) / n) % 2 == 0 { 0.75 } else { 0.3 },
                thr_k: if s == t { k } else { thr_k_of(0.5) },
                answer: if s == t {
                    Some(if rejecting { spec.s0 - d } else { (t - 1) as f64 - d })
                } else if rejecting && s < t {
                    None
                } else {
                    Some(s as f64)
                },
            })
            .collect()
    };
    let mut replays = 0u64;
    let mut decide = |k: u64| -> Result<bool, String> {
        replays += 1;
        let obs = run_script(cfg, spec, &mk(k));
        if let Some(p) = &obs.panic {
            return Err(format!("panic: {}", p));
        }
        if obs.proposals.len() < t {
            return Err(format!("only {} proposals", obs.proposals.len()));
        }
        let an = analyse(cfg, &obs, None);
        match an.unique_word {
            Some(w) => Ok(w >> (t - 1) & 1 == 1),
            None => Err("decision not observable".to_string()),
        }
    };
    let top = (1u64 << 53) - 1;
    if !decide(0)? {
        return Ok((0., replays));
    }
    if decide(top)? {
        return Ok((1., replays));
    }
    let (mut lo, mut hi) = (0u64, top);
    while hi - lo > 1 {
        let mid = lo + (hi - lo) / 2;
        if decide(mid)? {
            lo = mid;
        } else {
            hi = mid;
        }
    }
    Ok((hi as f64 / 9007199254740992.0, replays))
}

pub fn c07(tier: Tier) -> ! {
    let mut run = Run::new("C07", tier, "model_checking");
    // deterministic clauses on every step of scripted histories
    let mut jobs = vec![];
    for n in 2..=3usize {
        for &(steps, inner) in steps_grid(tier).iter() {
            for &(kt, fin, ratio) in [(0., None, Some(0.)), (0., None, Some(0.5)), (0.1, None, Some(0.)), (1., None, Some(0.5)), (0.5, Some(0.05), None), (1e-3, None, None), (f64::INFINITY, None, Some(0.)), (-1., None, Some(0.)), (1., None, Some(1.)), (0.5, Some(0.), None), (0., None, Some(f64::NEG_INFINITY))].iter() {
                // (the fifth pattern: every other proposal scores minus infinity - a score, but one no
                // finite temperature accepts)
                for (pi, pat) in patterns().into_iter().chain(vec![vec![Some(0.), Some(f64::NEG_INFINITY)]].into_iter()).enumerate() {
                    if tier == Tier::Quick && (pi + n + steps as usize) % 2 == 1 {
                        continue;
                    }
                    jobs.push(Job {
                        cfg: Cfg { steps, inner, kt_start: kt, kt_finish: fin, kt_ratio: ratio, max_step: 0.05, convergence: None, history: 0 },
                        spec: ProbeSpec::interior(n),
                        pattern: pat,
                        default_q: 0.75,
                        max_dev: tier.pick(2, 3).min(if steps > 8 { 2 } else { 3 }),
                        product_depth: if n == 2 && steps == 4 && pi == 0 { tier.pick(3, 4) } else { 0 },
                        ladder_depth: if n == 2 && pi == 0 && (steps == 4 || steps == 6) { tier.pick(3, 4) } else { 0 },
                    });
                    if pi < 2 {
                        // the same histories from a start outside the declared ranges
                        let mut j = jobs.last().unwrap().clone();
                        j.spec = ProbeSpec::outside(n);
                        j.product_depth = 0;
                        j.ladder_depth = 0;
                        j.max_dev = j.max_dev.min(2);
                        j.default_q = 0.;
                        jobs.push(j);
                    }
                    if pi < 2 {
                        // the same histories against an inconsistent (call-by-call) score function
                        let mut j = jobs[jobs.len() - 2].clone();
                        j.spec = j.spec.raw();
                        j.product_depth = 0;
                        j.ladder_depth = 0;
                        j.max_dev = j.max_dev.min(2);
                        jobs.push(j);
                    }
                }
            }
        }
    }
    let plain_jobs = jobs.clone();
    let jobs = with_builder_histories(jobs, 5);
    let judge = |cfg: &Cfg, _spec: &ProbeSpec, _s: &[StepScript], obs: &Obs, an: &Analysis| -> Vec<(Option<&'static str>, String)> {
        let mut v = vec![];
        if violated_common(obs, an) {
            return v;
        }
        let mut mask = F_NONE_ACCEPTED | F_BETTER_REJECTED | F_WORSE_ACCEPTED_ZERO_T_FIRST | F_METROPOLIS_FIRST_LOOP;
        if cfg.kt_start < 0. {
            // not a temperature: only the clauses that hold whatever kT is are judged
            mask = F_NONE_ACCEPTED | F_BETTER_REJECTED;
        }
        if cfg.kt_ratio.is_some() || cfg.kt_finish == Some(0.) {
            // a zero temperature multiplied by a finite ratio is zero in every loop, and so is
            // any temperature after a cooling factor of exactly zero
            mask |= F_WORSE_ACCEPTED_ZERO_T_LATER;
        }
        let f = an.flags_all & mask;
        if f != 0 {
            v.push((None, format!("Metropolis rule broken in every consistent history (first at step {}): {}", an.first_flag_step, flag_names(f).join("; "))));
        }
        v
    };
    let t = run_jobs(&mut run, &jobs, &judge);
    setter_orders(&mut run, &pick_for_setter_orders(&plain_jobs, tier.pick(8, 32)), &judge);
    // real states, real generator: every step's decision against the rule with the draw it used
    let rr = crate::rsx::real_runs(tier);
    for (w, c) in rr.c07 {
        run.fail(None, &w, c);
    }
    run.set("real_state_runs", rr.runs);
    run.set("real_state_steps_judged", rr.steps);
    // quantitative clause: the acceptance threshold, measured by replay bisection
    let ds = [1e-6, 1e-3, 0.05, 0.1, 0.5, 1., 5.];
    let kts = [1e-3, 0.01, 0.1, 0.5, 1., 10.];
    let mut meas = vec![];
    // unlikely but possible acceptances: d/kT between 11 and 34 (probabilities 1e-5 .. 1e-15)
    for &kt in [0.01, 1.].iter() {
        for &r in [11., 12.5, 16., 20., 24., 30., 34.].iter() {
            for &(steps, inner, t) in [(4u64, 4u64, 1usize), (4, 4, 3)].iter() {
                meas.push((kt * r, kt, steps, inner, t, 2));
            }
        }
    }
    for &d in ds.iter() {
        for &kt in kts.iter() {
            for &(steps, inner, t) in [(4u64, 4u64, 1usize), (4, 4, 2), (4, 4, 4), (6, 3, 3)].iter() {
                for n in [2usize, 3].iter() {
                    meas.push((d, kt, steps, inner, t, *n));
                }
            }
        }
    }
    // very low temperatures with drops of the same order (a floor or a cut-off on kT shows here)
    for &kt in [1e-12, 2f64.powi(-36), 1e-9, 1e-7].iter() {
        for &f in [0.25, 1., 3.].iter() {
            for &(steps, inner, t) in [(4u64, 4u64, 1usize), (4, 4, 3)].iter() {
                meas.push((kt * f, kt, steps, inner, t, 2));
            }
        }
    }
    calibrate();
    let mut res = par_map(&meas, |_, &(d, kt, steps, inner, t, n)| {
        let cfg = Cfg { steps, inner, kt_start: kt, kt_finish: None, kt_ratio: Some(0.), max_step: 0.01, convergence: None, history: 0 };
        let spec = ProbeSpec::interior(n);
        (accept_probability(&cfg, &spec, t, d), cfg, spec)
    });
    // later loops of a cooling run, with and without a convergence threshold that the earlier
    // loops stay under (fewer than six in a row, the run goes on): the temperature of loop j is
    // kt_start (1 - kt_ratio)^j
    let mut cooled = vec![];
    for &d in [0.05, 0.5, 2.].iter() {
        for &kt in [0.1, 1.].iter() {
            for &ratio in [0.5, 0.1].iter() {
                for &conv in [None, Some(1e6)].iter() {
                    for &t in [3usize, 5, 6].iter() {
                        cooled.push((d, kt, ratio, conv, t));
                    }
                }
            }
        }
    }
    let res2 = par_map(&cooled, |_, &(d, kt, ratio, conv, t)| {
        let cfg = Cfg { steps: 6, inner: 2, kt_start: kt, kt_finish: None, kt_ratio: Some(ratio), max_step: 0.01, convergence: conv, history: 0 };
        let spec = ProbeSpec::interior(2);
        (accept_probability(&cfg, &spec, t, d), cfg, spec)
    });
    for (i, r) in res2.into_iter().enumerate() {
        let (d, kt, ratio, _, t) = cooled[i];
        meas.push((d, kt * (1f64 - ratio).powi(((t - 1) / 2) as i32), 6, 2, t, 2));
        res.push(r);
    }
    let mut bisections = 0u64;
    let mut replays = 0u64;
    let mut interior = 0u64;
    for (i, (r, cfg, spec)) in res.into_iter().enumerate() {
        let (d, kt, _, _, t, _) = meas[i];
        let case = json!({"engine": "mcx-bisect", "cfg": cfg.json(), "probe": spec.json(), "step": t, "d": d});
        match r {
            Err(e) => run.fail(None, &format!("acceptance of a move worse by {} at kT={} could not be observed: {}", d, kt, e), case),
            Ok((p, n)) => {
                bisections += 1;
                replays += n;
                let want = (-effective_drop(&spec, t, d, false) / kt).exp();
                if p > 0. && p < 1. {
                    interior += 1;
                }
                // p is the smallest rejected threshold: surface in (p - 2^-53, p]
                // (relative: a cut-off of very small probabilities must show)
                if !((p - want).abs() <= 1e-9 * want + 2f64.powi(-52)) {
                    run.fail(None, &format!("a move worse by {} at kT={} is accepted iff u < {:e}, the Metropolis rule says exp(-d/kT) = {:e}", d, kt, p, want), case);
                }
                if i % 97 == 0 {
                    run.sample(json!({"bisection": {"d": d, "kT": kt, "step": t, "measured_threshold": p, "exp(-d/kT)": want, "replays": n}}));
                }
            }
        }
    }
    run.set("bisections", bisections);
    run.set("bisection_replays", replays);
    run.set("bisections_with_interior_threshold", interior);
    let total = run.get("traces_validated_against_impl") + replays;
    run.set("traces_validated_against_impl", total);
    run.set("exhaustive", true);
    run.set("explanation", "Deterministic clauses: every script with at most max_deviations departures from 4 baseline patterns (plus a full product to depth 3/4) on the real optimiser; for every consistent accept/reject history the decision at each step is compared with: invalid => rejected, better or equal => accepted, worse at zero temperature => rejected, worse in the first loop => accepted iff u < exp(-d/kT_start). Quantitative clause: for each (d, kT, step, layout) of a 7x6x4x2 grid, and for kT in {1e-12, 2^-36, 1e-9, 1e-7} with drops of 0.25, 1 and 3 kT, the acceptance threshold is measured exactly by bisecting the scripted uniform draw (53 replays) and compared with exp(-d/kT).");
    run.assume("uniformity of rand's gen::<f64>() (then 'accepted iff u < p' is 'accepted with probability p')");
    run.require(t.accepts > 0 && t.rejects > 0 && interior > 50, "accepts, rejects and interior thresholds must occur");
    run.finish()
}

// ------------------------------------------------------------------------------------------
// C05

pub fn c05_jobs(tier: Tier) -> Vec<Job> {
    let mut jobs = vec![];
    let fins = [None, Some(0.), Some(1e-3), Some(1.)];
    // ratios above one (over-cooling) and below zero (heating, up to an absurd factor) are legal
    let ratios = [None, Some(0.), Some(0.1), Some(1.), Some(2.), Some(-3.), Some(-1e200), Some(f64::NEG_INFINITY), Some(f64::INFINITY), Some(f64::NAN)];
    let mss = [0.01, 0.5, 1.];
    let convs = [None, Some(0.), Some(1e-3)];
    let mut k = 0usize;
    for &(steps, inner) in steps_grid(tier).iter().chain([(8u64, 1u64), (3, 1000)].iter()) {
        for &fin in fins.iter() {
            for &ratio in ratios.iter() {
                for &ms in mss.iter() {
                    for &conv in convs.iter() {
                        for (pi, pat) in patterns().into_iter().enumerate() {
                            k += 1;
                            if tier == Tier::Quick && k % 4 != 0 {
                                continue;
                            }
                            let n = 1 + (k % 3);
                            jobs.push(Job {
                                cfg: Cfg { steps, inner, kt_start: 0., kt_finish: fin, kt_ratio: ratio, max_step: ms, convergence: conv, history: 0 },
                                spec: if k % 2 == 0 { ProbeSpec::interior(n) } else { ProbeSpec::standard(n) },
                                pattern: pat,
                                default_q: 0.75,
                                max_dev: tier.pick(1, 2),
                                product_depth: if pi == 0 && steps == 4 && ms == 0.5 && conv.is_none() && n == 2 { 3 } else { 0 },
                                ladder_depth: if pi == 0 && steps == 6 && ms == 0.5 && conv.is_none() { 3 } else { 0 },
                            });
                            if k % 8 == 0 {
                                // a zero that carries a minus sign is a zero
                                let mut j = jobs.last().unwrap().clone();
                                j.cfg.kt_start = -0.0;
                                j.product_depth = 0;
                                j.ladder_depth = 0;
                                jobs.push(j);
                            }
                            if k % 12 == 0 {
                                let mut j = jobs.last().unwrap().clone();
                                j.spec = ProbeSpec::outside(n);
                                j.product_depth = 0;
                                j.ladder_depth = 0;
                                jobs.push(j);
                            }
                        }
                    }
                }
            }
        }
    }
    jobs
}

pub fn c05(tier: Tier) -> ! {
    let mut run = Run::new("C05", tier, "model_checking");
    let jobs = with_builder_histories(c05_jobs(tier), 3);
    let judge = |_cfg: &Cfg, spec: &ProbeSpec, _s: &[StepScript], obs: &Obs, an: &Analysis| -> Vec<(Option<&'static str>, String)> {
        let mut v = vec![];
        if violated_common(obs, an) {
            return v;
        }
        let f = an.flags_all & (F_SCORE_DECREASED | F_WORSE_ACCEPTED_ZERO_T_FIRST | F_WORSE_ACCEPTED_ZERO_T_LATER);
        if f != 0 {
            v.push((None, format!("kt_start = 0 but the sequence of accepted scores decreases in every consistent history (first at step {}): {}", an.first_flag_step, flag_names(f).join("; "))));
        }
        match obs.final_score {
            Some(Some(s)) if s >= spec.s0 => {}
            Some(other) => v.push((None, format!("kt_start = 0 but the returned score {:?} is below the input score {}", other, spec.s0))),
            None => {}
        }
        v
    };
    let t = run_jobs(&mut run, &jobs, &judge);
    setter_orders(&mut run, &pick_for_setter_orders(&c05_jobs(tier), tier.pick(8, 32)), &judge);
    // a proposal worse by 1, 2, 8 or 1000 units in the last place, met by the smallest possible
    // acceptance draw (0): at a zero starting temperature it is refused like any worse proposal
    let mut ulp_runs = 0u64;
    for &(steps, inner) in [(4u64, 4u64), (6, 2)].iter() {
        for at in 1..=steps as usize {
            for &k in [1u64, 2, 8, 1000].iter() {
                for &(fin, ratio) in [(None, Some(0.)), (Some(1e-3), None), (None, Some(0.5))].iter() {
                    let cfg = Cfg { steps, inner, kt_start: 0., kt_finish: fin, kt_ratio: ratio, max_step: 0.01, convergence: None, history: 0 };
                    let spec = ProbeSpec::interior(2);
                    let script: Vec<StepScript> = (1..=steps as usize)
                        .map(|s| {
                            let prev = if s == 1 { spec.s0 } else { (s - 1) as f64 };
                            let worse = if prev == 0. { -(k as f64) * f64::from_bits(1) } else { f64::from_bits(prev.to_bits() - k) };
                            StepScript { index: (s - 1) % 2, q: 0.75, thr_k: if s == at { 0 } else { thr_k_of(0.5) }, answer: Some(if s == at { worse } else if s > at { (s - 1) as f64 } else { s as f64 }) }
                        })
                        .collect();
                    let obs = run_script(&cfg, &spec, &script);
                    let an = analyse(&cfg, &obs, None);
                    ulp_runs += 1;
                    for (_, what) in judge(&cfg, &spec, &script, &obs, &an) {
                        run.fail(None, &format!("a proposal worse by {} ulp at step {}: {}", k, at, what), case_json(&cfg, &spec, &script));
                    }
                }
            }
        }
    }
    run.set("ulp_worse_runs", ulp_runs);
    // real hard and LJ states: every stage of a chained-stage search re-run as a pure hill climb
    let sweep_cfg = crate::rsx::Sweep { depth: tier.pick(2, 4), cap: tier.pick(400, 20_000), dense_steps: 300, shapes: crate::rsx::start_shapes(tier) };
    let (rf, rstarts) = crate::rsx::sweep(&sweep_cfg, &crate::rsx::Wants { c01: false, c04: false, c05: true, c08: false, c19: false });
    for (w, c) in rf.c05 {
        run.fail(None, &w, c);
    }
    let rr = crate::rsx::real_runs(tier);
    for (w, c) in rr.c05 {
        run.fail(None, &w, c);
    }
    run.set("real_generator_runs", rr.runs);
    run.set("real_generator_steps_judged", rr.steps);
    run.set("real_state_starts", rstarts);
    run.set("real_states_visited", rf.states);
    run.set("real_hill_climb_stages_improved", rf.hill_climb_improved);
    run.set("real_hill_climb_stages_unchanged", rf.hill_climb_stayed);
    let st = run.get("states") + rf.states;
    run.set("states", st);
    let tr = run.get("transitions") + rf.transitions;
    run.set("transitions", tr);
    let tv = run.get("traces_validated_against_impl") + rf.transitions;
    run.set("traces_validated_against_impl", tv);
    run.set("max_deviations", tier.pick(1, 2) as u64);
    run.set("exhaustive", true);
    run.set("explanation", "Every optimiser configuration of the grid with kt_start = 0 (kt_finish x kt_ratio x steps/inner_steps x max_step_size x convergence) is run on probe states with 1-3 parameters under every script with at most max_deviations departures from 4 baseline answer patterns (and a full product to depth 3 on the multi-loop configurations). In every consistent accept/reject history the accepted scores must be non-decreasing and the returned score at least the input score. Real hard and LJ crystal states: every state of a chained-stage breadth-first search (engine rsx) is put through each of the 35 scripted one- and two-step stages at kt_start = 0 and the returned score compared with the input score.");
    run.assume("probe landscape is consistent (same parameters, same score)");
    run.require(t.accepts > 0 && t.rejects > 0, "both accepted and rejected steps must occur");
    run.finish()
}

// ------------------------------------------------------------------------------------------
// C19

pub fn c19(tier: Tier) -> ! {
    let mut run = Run::new("C19", tier, "model_checking");
    let mut jobs = vec![];
    let grid: Vec<(u64, u64)> = if tier == Tier::Quick { vec![(4, 1), (4, 2), (6, 2), (6, 3), (6, 1)] } else { vec![(4, 1), (4, 2), (6, 1), (6, 2), (6, 3), (8, 2), (12, 2), (12, 3), (9, 3), (7, 3), (5, 9)] };
    for n in 1..=3usize {
        for &(steps, inner) in grid.iter() {
            for &ms in [0., 1e-6, 1e-4, 0.01, 0.1, 0.5, 1., 1.5].iter() {
                for &(kt, fin, ratio) in [(0., None, Some(0.)), (1e300, None, Some(0.)), (0.1, Some(10.), None), (0.5, None, Some(-3.)), (1., Some(1e-3), None)].iter() {
                    for pat in patterns().into_iter() {
                        for &q in [0., 0.75].iter() {
                            jobs.push(Job {
                                cfg: Cfg { steps, inner, kt_start: kt, kt_finish: fin, kt_ratio: ratio, max_step: ms, convergence: None, history: 0 },
                                // interior starts so that clamping cannot mask a move; starts on the
                                // bounds (where a window cannot be centred) for the large steps and for
                                // every other displacement
                                spec: if ms > 1. || (q == 0.75 && steps % 2 == 0) { ProbeSpec::standard(n) } else { ProbeSpec::interior(n) },
                                pattern: pat.clone(),
                                default_q: q,
                                max_dev: tier.pick(1, 2),
                                product_depth: 0,
                                ladder_depth: 0,
                            });
                        }
                    }
                }
            }
        }
    }
    // with a convergence threshold the loops below it (fewer than six in a row, the run goes on)
    // adapt the step like any other loop
    for n in 1..=2usize {
        for &(steps, inner) in [(10u64, 2u64), (6, 1), (12, 3)].iter() {
            for &conv in [1e6, 1e-3].iter() {
                for &ms in [0.01, 0.1].iter() {
                    for pat in patterns().into_iter() {
                        for &q in [0., 0.75].iter() {
                            jobs.push(Job {
                                cfg: Cfg { steps, inner, kt_start: 0., kt_finish: None, kt_ratio: Some(0.), max_step: ms, convergence: Some(conv), history: 0 },
                                spec: ProbeSpec::interior(n),
                                pattern: pat.clone(),
                                default_q: q,
                                max_dev: 1,
                                product_depth: 0,
                                ladder_depth: 0,
                            });
                        }
                    }
                }
            }
        }
    }
    let plain_jobs = jobs.clone();
    let jobs = with_builder_histories(jobs, 9);
    let judge = |cfg: &Cfg, spec: &ProbeSpec, _s: &[StepScript], obs: &Obs, an: &Analysis| -> Vec<(Option<&'static str>, String)> {
        let mut v = vec![];
        if obs.panic.is_some() {
            return v;
        }
        if let Some(t) = an.not_derived_at {
            v.push((None, format!("proposal {} changes more than one parameter of every state the run could be in", t)));
            return v;
        }
        if an.final_mismatch {
            return v;
        }
        // judged over the histories that obey the deterministic clauses of the acceptance rule: a
        // move is measured from the state the run is in, not from one it could only be in had a
        // better proposal been refused or one without a score been taken
        if an.flags_lawful & F_STEP_TOO_BIG != 0 {
            let t = an.first_flag_step;
            v.push((None, format!("a move exceeds max_step_size * range / 2 = {:?} (first at step {}, inner loop {})", step_bounds(cfg, spec), t, cfg.loop_of(t.max(1)) + 1)));
        }
        v
    };
    let t = run_jobs(&mut run, &jobs, &judge);
    setter_orders(&mut run, &pick_for_setter_orders(&plain_jobs, tier.pick(8, 32)), &judge);
    // bounces off a limit against a call-by-call score function: an accepted move onto the limit
    // from a fraction of a step inside, the same move again (now no move at all) refused, then a
    // move back inside - every fraction, refusal pattern and return move of a small alphabet
    let mut bounces = 0u64;
    for n in 1..=2usize {
        for &ms in [0.5, 0.1, 0.01].iter() {
            for &frac in [0.2, 0.4, 0.9].iter() {
                for &back in [0.7, 0.95, 1. - 1. / 4503599627370496.0].iter() {
                    for refusals in 1..=2usize {
                        for &(kt, upper) in [(0., false), (1e300, false), (0., true)].iter() {
                            let mut spec = ProbeSpec::interior(n).raw();
                            let (lo, hi) = spec.bounds[0];
                            let hw = ms * (hi - lo) / 2.;
                            spec.start[0] = if upper { hi - frac * hw } else { lo + frac * hw };
                            let cfg = Cfg { steps: (2 + refusals) as u64, inner: (2 + refusals) as u64, kt_start: kt, kt_finish: None, kt_ratio: Some(0.), max_step: ms, convergence: None, history: 0 };
                            let away = if upper { 1. - 1. / 4503599627370496.0 } else { 0. };
                            let mut script = vec![StepScript { index: 0, q: away, thr_k: thr_k_of(0.5), answer: Some(1.) }];
                            for _ in 0..refusals {
                                script.push(StepScript { index: 0, q: away, thr_k: thr_k_of(0.5), answer: None });
                            }
                            script.push(StepScript { index: 0, q: if upper { 1. - back } else { back }, thr_k: thr_k_of(0.5), answer: Some(5.) });
                            let obs = run_script(&cfg, &spec, &script);
                            let an = analyse(&cfg, &obs, Some(&step_bounds(&cfg, &spec)));
                            bounces += 1;
                            for (_, what) in judge(&cfg, &spec, &script, &obs, &an) {
                                run.fail(None, &format!("bounce off a limit: {}", what), case_json(&cfg, &spec, &script));
                            }
                        }
                    }
                }
            }
        }
    }
    run.set("bounce_scripts", bounces);
    // real hard and LJ crystal states: every proposal of a chained-stage search (engine rsx, every
    // valid proposal accepted so the parent of each proposal is known) against the same bound,
    // with the ranges the property declares for cell, site and orientation parameters
    let sweep_cfg = crate::rsx::Sweep { depth: tier.pick(2, 4), cap: tier.pick(150, 10_000), dense_steps: 300, shapes: crate::rsx::start_shapes(tier) };
    let (rf, rstarts) = crate::rsx::sweep(&sweep_cfg, &crate::rsx::Wants { c01: false, c04: false, c05: false, c08: false, c19: true });
    for (w, c) in rf.c19 {
        run.fail(None, &w, c);
    }
    run.set("real_state_starts", rstarts);
    run.set("real_states_visited", rf.states);
    run.set("real_state_moves_measured", rf.moves_measured);
    run.set("max_deviations", tier.pick(1, 2) as u64);
    run.set("exhaustive", true);
    run.set("explanation", "Rejection histories from 0 % to 100 % per loop (4 baseline patterns and every departure of at most max_deviations fields from them), 1..12 inner loops, 7 maximum step sizes (1e-6 .. 1.5), constant, cooling and heating schedules, 3 parameter ranges, extreme and moderate displacement draws, interior start values so that clamping cannot mask a move. Every proposal must differ from a state the run can be in by one parameter and by at most max_step_size * range / 2.");
    run.require(t.accepts > 0 && t.rejects > 0, "both accepted and rejected steps must occur");
    run.finish()
}

// ------------------------------------------------------------------------------------------
// C18

#[derive(Clone, Copy, Debug, PartialEq)]
pub enum Temp {
    Never,
    Always,
    Kt(f64),
    Unobservable,
}

pub fn measure_temperature(cfg: &Cfg, spec: &ProbeSpec, t: usize, guess: f64, rejecting: bool) -> (Temp, u64) {
    let mut d = if guess > 0. && guess.is_finite() { guess * 0.7 } else { 1e-3 };
    let mut replays = 0;
    let mut saw_zero = false;
    let mut saw_one = false;
    let mut refinements = 0;
    for _ in 0..12 {
        match accept_probability_h(cfg, spec, t, d, rejecting) {
            Err(_) => return (Temp::Unobservable, replays),
            Ok((p, n)) => {
                replays += n;
                if p <= 1e-9 {
                    saw_zero = true;
                    if saw_one {
                        break;
                    }
                    d /= 1000.;
                    // below this the scripted answer (t-1) - d is no longer worse than (t-1)
                    if d < 1e-12 {
                        break;
                    }
                } else if p >= 1. - 1e-9 {
                    saw_one = true;
                    if saw_zero {
                        break;
                    }
                    d *= 1000.;
                    if d > 1e12 {
                        break;
                    }
                } else {
                    let de = effective_drop(spec, t, d, rejecting);
                    let kt = -de / p.ln();
                    // ln p is well conditioned only away from 0 and 1, and the rounded drop must
                    // still resolve d: otherwise refine once around the estimate
                    if (p < 1e-4 || p > 0.99 || (de - d).abs() > 1e-3 * d) && refinements < 3 && kt > 1e-12 && kt < 1e12 {
                        refinements += 1;
                        d = 0.7 * kt;
                        continue;
                    }
                    return (Temp::Kt(kt), replays);
                }
            }
        }
    }
    if saw_zero && !saw_one {
        (Temp::Never, replays)
    } else if saw_one && !saw_zero {
        (Temp::Always, replays)
    } else {
        (Temp::Unobservable, replays)
    }
}

pub fn c18_configs(tier: Tier) -> Vec<Cfg> {
    let mut v = vec![];
    let shapes: Vec<(u64, u64)> = if tier == Tier::Quick { vec![(4, 1), (4, 0), (6, 2), (12, 4), (7, 3), (5, 5), (5, 9), (18, 1)] } else { vec![(4, 1), (4, 0), (6, 0), (6, 2), (10, 1), (12, 3), (12, 4), (7, 3), (5, 5), (5, 9), (12, 2), (9, 4), (8, 8), (18, 1), (18, 0)] };
    // (-0.0: a zero temperature that carries a minus sign, through the argument parser and through the setters)
    for &start in [0., 1e-10, 0.01, 0.1, 1., -0.0].iter() {
        let mut schedules: Vec<(Option<f64>, Option<f64>)> = vec![(None, None)];
        for &r in [0., 0.1, 0.5, 0.9, 1.].iter() {
            schedules.push((None, Some(r)));
        }
        for &m in [1e-3, 0.1, 1., 10.].iter() {
            schedules.push((Some(if start == 0. { m * 0.1 } else { start * m }), None));
        }
        schedules.push((Some(0.), None));
        schedules.push((Some(0.05), Some(0.5)));
        // a ratio together with a finishing temperature it undercuts after two loops: the ratio wins
        schedules.push((Some(if start == 0. { 0.3 } else { start * 0.3 }), Some(0.5)));
        for (fin, ratio) in schedules {
            for &(steps, inner) in shapes.iter().chain([(6u64, 1000u64)].iter()) {
                let c = Cfg { steps, inner, kt_start: start, kt_finish: fin, kt_ratio: ratio, max_step: 0.01, convergence: None, history: 0 };
                // the same configuration reached through setter calls on a used builder
                if c.reachable_by_setters() && (steps == 6 || steps == 12) {
                    v.push(c.with_history(1));
                    v.push(c.with_history(2));
                }
                // the schedule does not depend on a convergence threshold: loops that count as
                // converged (fewer than six in a row, so the run goes on) cool like any other
                if (steps, inner) == (6, 2) || (steps, inner) == (12, 4) || (steps, inner) == (4, 1) {
                    v.push(Cfg { convergence: Some(1e6), ..c.clone() });
                }
                v.push(c);
            }
        }
    }
    v
}

pub fn c18_check_config(cfg: &Cfg) -> (Vec<Temp>, u64, Vec<String>) {
    let (t1, r1, mut f1) = c18_check_config_h(cfg, false);
    // the same schedule must govern a run whose earlier proposals were all rejected
    let (t2, r2, f2) = c18_check_config_h(cfg, true);
    for f in f2 {
        if f.starts_with("MACHINERY") {
            continue;
        }
        f1.push(format!("(after rejected proposals only) {}", f));
    }
    let mut t = t1;
    t.extend(t2);
    (t, r1 + r2, f1)
}

pub fn c18_check_config_h(cfg: &Cfg, rejecting: bool) -> (Vec<Temp>, u64, Vec<String>) {
    let spec = ProbeSpec::interior(2);
    let len = cfg.steps as usize;
    let ie = cfg.inner_eff() as usize;
    let mut temps = vec![];
    let mut replays = 0;
    let mut guess = cfg.kt_start;
    for t in 1..=(len / ie * ie) {
        let (m, n) = measure_temperature(cfg, &spec, t, guess, rejecting);
        replays += n;
        if let Temp::Kt(k) = m {
            guess = k;
        }
        temps.push(m);
    }
    let mut fails = vec![];
    let rel = |a: f64, b: f64| (a - b).abs() <= 1e-9 * a.abs().max(b.abs());
    let loops = temps.len() / ie;
    if temps.iter().any(|t| *t == Temp::Unobservable) {
        fails.push("MACHINERY: acceptance decisions could not be observed".to_string());
        return (temps, replays, fails);
    }
    // per-loop temperature; (a) constant within a loop
    let mut per_loop: Vec<Temp> = vec![];
    for j in 0..loops {
        let first = temps[j * ie];
        for (o, t) in temps[j * ie..(j + 1) * ie].iter().enumerate() {
            let same = match (first, *t) {
                (Temp::Kt(a), Temp::Kt(b)) => rel(a, b),
                (a, b) => a == b,
            };
            if !same {
                fails.push(format!("temperature changes inside inner loop {}: {:?} at its first step, {:?} at step {}", j + 1, first, t, o + 1));
                break;
            }
        }
        per_loop.push(first);
    }
    let as_kt = |t: Temp| -> Option<f64> {
        match t {
            Temp::Kt(k) => Some(k),
            Temp::Never => Some(0.),
            _ => None,
        }
    };
    if loops == 0 {
        return (temps, replays, fails);
    }
    // (f) first loop governed by kt_start
    match (per_loop[0], cfg.kt_start) {
        (Temp::Never, s) if s == 0. => {}
        (Temp::Kt(k), s) if s > 0. && rel(k, s) => {}
        (got, s) => fails.push(format!("first inner loop runs at {:?}, kt_start is {}", got, s)),
    }
    // (e) zero stays zero
    if cfg.kt_start == 0. {
        for (j, t) in per_loop.iter().enumerate() {
            if *t != Temp::Never {
                fails.push(format!("kt_start = 0 but worse moves are accepted in inner loop {} ({:?})", j + 1, t));
                break;
            }
        }
        return (temps, replays, fails);
    }
    // (b) one cooling factor between loops
    let kts: Vec<Option<f64>> = per_loop.iter().map(|t| as_kt(*t)).collect();
    if kts.iter().any(|k| k.is_none()) {
        fails.push(format!("temperature is not a number in some inner loop: {:?}", per_loop));
        return (temps, replays, fails);
    }
    let kts: Vec<f64> = kts.into_iter().map(|k| k.unwrap()).collect();
    let mut factor: Option<f64> = None;
    for j in 1..loops {
        if kts[j - 1] == 0. {
            if kts[j] != 0. {
                fails.push(format!("temperature rises from zero in inner loop {}", j + 1));
            }
            continue;
        }
        let f = kts[j] / kts[j - 1];
        match factor {
            None => factor = Some(f),
            Some(g) => {
                if !rel(f, g) && !(kts[j] == 0. && g < 1e-3) {
                    fails.push(format!("cooling factor is not constant: {} then {} (loop temperatures {:?})", g, f, kts));
                    break;
                }
            }
        }
    }
    // (c) the factor is 1 - kt_ratio when a ratio is given
    if let (Some(r), Some(f)) = (cfg.kt_ratio, factor) {
        if !((f - (1. - r)).abs() <= 1e-9) {
            fails.push(format!("cooling factor {} but kt_ratio {} asks for {}", f, r, 1. - r));
        }
    }
    // (d) with a finishing temperature the last loop is within one cooling step of it
    if let (None, Some(fin), true) = (cfg.kt_ratio, cfg.kt_finish, loops >= 2) {
        let last = kts[loops - 1];
        let f = factor.unwrap_or(1.);
        let (lo, hi) = if f > 0. && f.is_finite() { (fin * f.min(1. / f), fin * f.max(1. / f)) } else { (0., fin.max(0.)) };
        if !(last >= lo * (1. - 1e-9) && last <= hi * (1. + 1e-9)) {
            fails.push(format!("kt_finish = {} but the last inner loop runs at {} (loop temperatures {:?}), outside one cooling step [{}, {}]", fin, last, kts, lo, hi));
        }
    }
    (temps, replays, fails)
}

/// Every order of the seven setter calls on a used builder, for a selection of schedules: runs
/// down six staircases of worse proposals (steps of 0.02 .. 4 kt_start, acceptance draw 1/2) are
/// compared with the runs of the optimiser the argument parser builds; the schedule of an order
/// that decides differently is measured in full like any other configuration.
fn c18_setter_orders(run: &mut Run, cfgs: &[Cfg]) {
    let spec = ProbeSpec::interior(2);
    let outs = par_map(cfgs, |_, cfg| {
        let unit = if cfg.kt_start > 0. { cfg.kt_start } else { 1e-3 };
        let scripts: Vec<Vec<StepScript>> = [0.02, 0.1, 0.35, 0.69, 1.5, 4.]
            .iter()
            .map(|m| (1..=cfg.steps as usize).map(|t| StepScript { index: (t - 1) % 2, q: 0.75, thr_k: thr_k_of(0.5), answer: Some(-(t as f64) * m * unit) }).collect())
            .collect();
        let base: Vec<u64> = scripts.iter().map(|s| obs_fingerprint(&run_script(cfg, &spec, s))).collect();
        let mut differing = 0u64;
        let mut runs = 0u64;
        let mut fails: Vec<(String, Value)> = vec![];
        for k in 0..SETTER_ORDERS {
            let c = cfg.with_history(SETTER_ORDERS_BASE + k as u32);
            let mut differs = false;
            for (s, b) in scripts.iter().zip(base.iter()) {
                runs += 1;
                if obs_fingerprint(&run_script(&c, &spec, s)) != *b {
                    differs = true;
                    break;
                }
            }
            if differs {
                differing += 1;
                if fails.len() < 2 {
                    let (temps, n, f) = c18_check_config(&c);
                    runs += n;
                    let order: Vec<&str> = setter_order(k).iter().map(|&i| SETTER_NAMES[i]).collect();
                    for what in f {
                        if !what.starts_with("MACHINERY") && fails.len() < 2 {
                            fails.push((format!("builder setters called in the order {:?}: {}", order, what), json!({"engine": "mcx-schedule", "cfg": c.json(), "measured": temps.iter().map(|t| format!("{:?}", t)).collect::<Vec<_>>()})));
                        }
                    }
                }
            }
        }
        (runs, differing, fails)
    });
    let (mut runs, mut differing) = (0u64, 0u64);
    for (r, d, fails) in outs {
        runs += r;
        differing += d;
        for (w, c) in fails {
            run.fail(None, &w, c);
        }
    }
    run.set("setter_order_configurations", cfgs.len() as u64);
    run.set("setter_orders_per_configuration", SETTER_ORDERS as u64);
    run.set("setter_order_runs", runs);
    run.set("setter_orders_behaving_unlike_the_parsed_configuration", differing);
}

pub fn c18(tier: Tier) -> ! {
    let mut run = Run::new("C18", tier, "model_checking");
    calibrate();
    let cfgs = c18_configs(tier);
    let prev_hook = std::panic::take_hook();
    std::panic::set_hook(Box::new(|_| {}));
    let res = par_map(&cfgs, |_, c| c18_check_config(c));
    let pool: Vec<Cfg> = cfgs.iter().filter(|c| c.history == 0 && c.reachable_by_setters() && c.steps > c.inner && c.inner > 0).cloned().collect();
    let n_orders = tier.pick(8, 40);
    let picked: Vec<Cfg> = pool.iter().step_by((pool.len() / n_orders).max(1)).take(n_orders).cloned().chain(cfgs.iter().filter(|c| c.history == 0 && c.reachable_by_setters() && c.inner == 1000 && c.kt_start > 0.).step_by(7).take(3).cloned()).collect();
    c18_setter_orders(&mut run, &picked);
    // the command line's own pipeline, in-process on a recording state: the requested temperature
    // reaches its annealing stage
    let pipes = crate::pipe::requested_temperature_reaches_the_pipeline(&mut run);
    crate::cli::cleanup();
    run.set("in_process_pipelines_on_a_recording_state", pipes);
    std::panic::set_hook(prev_hook);
    let mut measured = 0u64;
    let mut replays = 0u64;
    let mut kinds: HashSet<String> = HashSet::new();
    let mut unobservable = 0u64;
    for (i, (temps, n, fails)) in res.into_iter().enumerate() {
        let cfg = &cfgs[i];
        measured += temps.len() as u64;
        replays += n;
        for t in temps.iter() {
            kinds.insert(match t {
                Temp::Never => "never".to_string(),
                Temp::Always => "always".to_string(),
                Temp::Kt(k) => format!("{:.6e}", k),
                Temp::Unobservable => "unobservable".to_string(),
            });
        }
        let case = json!({"engine": "mcx-schedule", "cfg": cfg.json(), "measured": temps.iter().map(|t| format!("{:?}", t)).collect::<Vec<_>>()});
        for f in fails {
            if f.starts_with("MACHINERY") {
                unobservable += 1;
                if std::env::var("PVX_DEBUG").is_ok() {
                    eprintln!("unobservable: {} {:?}", cfg.json(), temps);
                }
            } else {
                run.fail(None, &f, case.clone());
            }
        }
        if i % (cfgs.len() / 8 + 1) == 0 {
            run.sample(case);
        }
    }
    run.set("configurations", cfgs.len() as u64);
    run.set("states", kinds.len() as u64);
    run.set("transitions", measured);
    run.set("traces_validated_against_impl", replays);
    run.set("step_temperatures_measured", measured);
    run.set("configurations_unobservable", unobservable);
    run.set("exhaustive", true);
    run.set("explanation", "For every configuration of the (kt_start, kt_finish | kt_ratio | neither, steps, inner_steps) grid the temperature governing every single step is measured exactly: all other steps are scripted improvements, the step under test is worse by d, and the acceptance threshold is found by bisecting the scripted uniform draw (kT = -d / ln p). states = distinct temperatures observed, transitions = step temperatures measured, traces = optimiser runs replayed. Oracle: constant inside a loop, one constant factor between loops, factor = 1 - kt_ratio, last loop within one measured cooling step of kt_finish, zero stays zero, first loop at kt_start.");
    run.require(unobservable * 10 <= cfgs.len() as u64, "too many configurations whose decisions could not be observed");
    run.require(kinds.len() > 5, "too few distinct temperatures");
    run.finish()
}

// ------------------------------------------------------------------------------------------
// C20 (library part; the CLI part lives in cli.rs and is merged by c20())

pub struct LibC20 {
    pub jobs: usize,
    pub runs: u64,
    pub steps: u64,
    pub distinct: u64,
    pub early_exits: u64,
    pub prefix_checks: u64,
}

pub fn c20_library(run: &mut Run, tier: Tier) -> LibC20 {
    calibrate();
    let steps_v: Vec<u64> = vec![0, 1, 2, 3, 4, 5, 6, 7, 8, 12];
    let inner_v: Vec<u64> = vec![0, 1, 2, 3, 4, 5, 1000];
    let convs: Vec<Option<f64>> = vec![None, Some(-1.), Some(0.), Some(1e-3), Some(f64::INFINITY), Some(f64::NAN)];
    let mut jobs = vec![];
    let mut k = 0usize;
    for &steps in steps_v.iter() {
        for &inner in inner_v.iter() {
            for &kt in [0., 0.1].iter() {
                for &conv in convs.iter() {
                    for (pi, pat) in [vec![Some(0.)], vec![None], vec![Some(0.), None, None]].iter().enumerate() {
                        k += 1;
                        if tier == Tier::Quick && (k % 3 != 0) && !(steps == 0 || inner == 0) {
                            continue;
                        }
                        let _ = pi;
                        let c = Cfg { steps, inner, kt_start: kt, kt_finish: if k % 2 == 0 { Some(1e-3) } else { None }, kt_ratio: if k % 4 == 1 { Some(0.5) } else { None }, max_step: if k % 9 == 4 { 0. } else { 0.01 }, convergence: conv, history: 0 };
                        if c.reachable_by_setters() && k % 5 == 0 {
                            jobs.push((c.with_history(1), pat.clone()));
                            jobs.push((c.with_history(2), pat.clone()));
                        }
                        jobs.push((c, pat.clone()));
                    }
                }
            }
        }
    }
    // slowly falling scores at a temperature that accepts them (every loop "improves" by a small
    // negative amount): thresholds at and below zero are thresholds too
    let mut falling: Vec<Cfg> = vec![];
    for &(steps, inner) in [(12u64, 1u64), (16, 2), (9, 1)].iter() {
        for &conv in [Some(0.), Some(-1e-12), Some(-1.), Some(1e-3), Some(f64::INFINITY)].iter() {
            falling.push(Cfg { steps, inner, kt_start: 0.1, kt_finish: None, kt_ratio: Some(0.), max_step: 0.01, convergence: conv, history: 0 });
        }
    }
    let mut falling_runs = 0u64;
    for cfg in falling.iter() {
        let spec = ProbeSpec::interior(2);
        let script: Vec<StepScript> = (1..=cfg.steps as usize).map(|t| StepScript { index: (t - 1) % 2, q: 0.75, thr_k: thr_k_of(0.5), answer: Some(-1e-9 * t as f64) }).collect();
        let obs = run_script(cfg, &spec, &script);
        let full = run_script(&Cfg { convergence: None, ..cfg.clone() }, &spec, &script);
        falling_runs += 2;
        let case = case_json(cfg, &spec, &script);
        if obs.panic.is_some() || full.panic.is_some() {
            run.fail(None, &format!("optimiser panicked: {:?}", obs.panic.or(full.panic)), case);
            continue;
        }
        let thr = cfg.convergence.unwrap();
        let ie = cfg.inner_eff() as usize;
        // every loop "improves" by -1e-9 * inner: below the threshold iff thr > that
        let expect_exit = -1e-9 * (ie as f64) < thr;
        let want = if expect_exit { (6 * ie).min(full.proposals.len()) } else { full.proposals.len() };
        if obs.proposals.len() != want {
            run.fail(None, &format!("scores falling by 1e-9 per step at kT = 0.1, threshold {}: {} proposals evaluated, {} expected (exit after six consecutive loops below the threshold: {})", thr, obs.proposals.len(), want, expect_exit), case);
        }
    }
    // nothing accepted at all, a score of 2 and thresholds far below the spacing of doubles at 2:
    // every loop gains exactly zero, which is less than any positive threshold
    for &(steps, inner) in [(12u64, 1u64), (20, 2)].iter() {
        for &conv in [1e-30, 1e-300, f64::MIN_POSITIVE].iter() {
            let cfg = Cfg { steps, inner, kt_start: 0., kt_finish: None, kt_ratio: Some(0.), max_step: 0.01, convergence: Some(conv), history: 0 };
            let spec = ProbeSpec::interior(2).with_s0(2.);
            let script: Vec<StepScript> = (1..=steps as usize).map(|t| StepScript { index: (t - 1) % 2, q: 0.75, thr_k: thr_k_of(0.5), answer: None }).collect();
            let obs = run_script(&cfg, &spec, &script);
            falling_runs += 1;
            let want = 6 * inner as usize;
            if obs.panic.is_some() || obs.proposals.len() != want {
                run.fail(None, &format!("every proposal refused (gain exactly 0 per loop), threshold {:e}: {} proposals evaluated, {} expected (six loops below the threshold)", conv, obs.proposals.len(), want), case_json(&cfg, &spec, &script));
            }
        }
    }
    run.set("falling_score_runs", falling_runs);
    // "run until converged": an astronomically large step count with a threshold ends after six loops
    for &(steps, inner) in [(1u64 << 62, 1u64), (u64::MAX, 1), (u64::MAX, 3)].iter() {
        for &kt in [0., 0.1].iter() {
            let cfg = Cfg { steps, inner, kt_start: kt, kt_finish: None, kt_ratio: Some(0.), max_step: 0.01, convergence: Some(f64::INFINITY), history: 0 };
            let spec = ProbeSpec::interior(2);
            let script: Vec<StepScript> = (1..=40usize).map(|t| StepScript { index: (t - 1) % 2, q: 0.75, thr_k: thr_k_of(0.5), answer: Some(t as f64) }).collect();
            let obs = run_script(&cfg, &spec, &script);
            let want = 6 * inner as usize;
            if let Some(p) = &obs.panic {
                run.fail(None, &format!("optimiser panicked: {}", p), case_json(&cfg, &spec, &script));
            } else if obs.proposals.len() != want {
                run.fail(None, &format!("steps = {} with an infinite convergence threshold: {} proposals evaluated, {} expected (six inner loops)", steps, obs.proposals.len(), want), case_json(&cfg, &spec, &script));
            }
        }
    }
    let prev_hook = std::panic::take_hook();
    std::panic::set_hook(Box::new(|_| {}));
    let jobs: Vec<(Cfg, Vec<Option<f64>>, usize)> = jobs.into_iter().enumerate().map(|(i, (c, p))| (c, p, i)).collect();
    let outs = par_map(&jobs, |_, (cfg, pat, ji)| {
        // mostly interior starts; every seventh job starts outside the declared ranges, every
        // eleventh has a parameter whose lower limit lies above the upper one, every fifth starts
        // three units in the last place inside the lower limits
        let spec = if ji % 11 == 5 { ProbeSpec::inverted(2) } else if ji % 7 == 3 { ProbeSpec::outside(2) } else if ji % 5 == 1 { ProbeSpec::near_bound(2) } else { ProbeSpec::interior(2) };
        // (from a start next to the lower limits the moves go down, onto the limits)
        let alpha = Alphabet { default_q: if ji % 5 == 1 && ji % 11 != 5 && ji % 7 != 3 { 0. } else { 0.75 }, ..Alphabet::standard(2).with_pattern(pat.clone()) };
        let len = cfg.steps as usize;
        let mut fails: Vec<(String, Value)> = vec![];
        let mut runs = 0u64;
        let mut steps_done = 0u64;
        let mut early = 0u64;
        let mut prefix = 0u64;
        let mut seen = HashSet::new();
        let max_dev = if tier == Tier::Thorough && len <= 6 { 2 } else if len <= 8 { 1 } else { 0 };
        for_each_script(&alpha, len, max_dev, |script, _| {
            let obs = run_script(cfg, &spec, script);
            runs += 1;
            steps_done += obs.proposals.len() as u64;
            seen.insert(obs_fingerprint(&obs));
            let case = case_json(cfg, &spec, script);
            let mut fail = |w: String| {
                if fails.len() < 2 {
                    fails.push((w, case.clone()));
                }
            };
            if let Some(p) = &obs.panic {
                fail(format!("optimiser panicked: {}", p));
                return;
            }
            // proposals evaluated = score() calls that follow a displacement draw
            let t = obs.proposals.len() as u64;
            if t > cfg.steps {
                fail(format!("{} proposals evaluated, more than steps = {}", t, cfg.steps));
            }
            let ie = cfg.inner.min(cfg.steps);
            let lower = cfg.steps - ie;
            let no_conv = {
                let mut c = cfg.clone();
                c.convergence = None;
                c
            };
            if cfg.convergence.is_none() {
                if t < lower {
                    fail(format!("only {} proposals evaluated for steps = {}, inner_steps = {} (at least {} expected)", t, cfg.steps, cfg.inner, lower));
                }
            } else {
                // exact prefix of the run without the threshold
                let full = run_script(&no_conv, &spec, script);
                prefix += 1;
                if full.panic.is_some() {
                    return;
                }
                let is_prefix = obs.proposals.len() <= full.proposals.len()
                    && obs.proposals.iter().zip(full.proposals.iter()).all(|(a, b)| {
                        a.params.iter().map(|x| x.to_bits()).eq(b.params.iter().map(|x| x.to_bits())) && a.answer.map(|x| x.to_bits()) == b.answer.map(|x| x.to_bits())
                    });
                if !is_prefix {
                    fail("the run with a convergence threshold is not a prefix of the run without it".to_string());
                    return;
                }
                if obs.proposals.len() == full.proposals.len() {
                    // it went the whole way: then no six consecutive inner loops before the last
                    // one each improved by less than the threshold
                    let iel = cfg.inner_eff() as usize;
                    let loops = obs.proposals.len() / iel;
                    let an = analyse(cfg, &obs, None);
                    if an.unique_word.is_some() && loops > 6 {
                        let thr = cfg.convergence.unwrap();
                        let s0 = obs.initial.as_ref().and_then(|i| i.1).unwrap_or(f64::NAN);
                        let at = |l: usize| if l == 0 { s0 } else { an.score_trace[l * iel - 1] };
                        let mut streak = 0;
                        for l in 0..loops - 1 {
                            if at(l + 1) - at(l) < thr {
                                streak += 1;
                                if streak > 5 {
                                    fail(format!("inner loops {}..{} each improved the score by less than the threshold {} but the run went on to its last step", l - 4, l + 1, thr));
                                    break;
                                }
                            } else {
                                streak = 0;
                            }
                        }
                    }
                }
                if obs.proposals.len() < full.proposals.len() {
                    early += 1;
                    let iel = cfg.inner_eff() as usize;
                    let tl = obs.proposals.len();
                    if tl % iel != 0 {
                        fail(format!("early exit after {} proposals, not at the end of an inner loop of {}", tl, iel));
                        return;
                    }
                    let loops = tl / iel;
                    if loops < 6 {
                        fail(format!("early exit after only {} inner loops", loops));
                        return;
                    }
                    let an = analyse(cfg, &obs, None);
                    if an.unique_word.is_some() {
                        let thr = cfg.convergence.unwrap();
                        let s0 = obs.initial.as_ref().and_then(|i| i.1).unwrap_or(f64::NAN);
                        let at = |l: usize| if l == 0 { s0 } else { an.score_trace[l * iel - 1] };
                        for l in (loops - 6)..loops {
                            let imp = at(l + 1) - at(l);
                            if !(imp < thr) {
                                fail(format!("early exit although inner loop {} improved the score by {} (threshold {})", l + 1, imp, thr));
                                break;
                            }
                        }
                    }
                    // the returned state of the early exit is the state the full run had then
                } else if t < lower {
                    fail(format!("only {} proposals evaluated for steps = {}, inner_steps = {}", t, cfg.steps, cfg.inner));
                }
            }
        });
        (runs, steps_done, seen.len() as u64, early, prefix, fails)
    });
    std::panic::set_hook(prev_hook);
    let mut lib = LibC20 { jobs: jobs.len(), runs: 0, steps: 0, distinct: 0, early_exits: 0, prefix_checks: 0 };
    for (r, s, d, e, p, fails) in outs {
        lib.runs += r;
        lib.steps += s;
        lib.distinct += d;
        lib.early_exits += e;
        lib.prefix_checks += p;
        for (w, c) in fails {
            let key = None;
            run.fail(key, &w, c);
        }
    }
    lib
}

pub fn c20(tier: Tier) -> ! {
    let mut run = Run::new("C20", tier, "model_checking");
    let mut lib = c20_library(&mut run, tier);
    // the same grid again with every log statement of the crate switched on (formatted, discarded)
    logging(true);
    let lib2 = c20_library(&mut run, tier);
    logging(false);
    lib.runs += lib2.runs;
    lib.steps += lib2.steps;
    lib.prefix_checks += lib2.prefix_checks;
    lib.early_exits += lib2.early_exits;
    let cli = crate::cli::c20_cli(&mut run, tier);
    run.set("configurations", lib.jobs as u64);
    run.set("states", lib.distinct);
    run.set("transitions", lib.steps);
    run.set("traces_validated_against_impl", lib.runs + lib.prefix_checks + cli.invocations);
    run.set("library_runs", lib.runs);
    run.set("early_exits_observed", lib.early_exits);
    run.set("prefix_comparisons", lib.prefix_checks);
    run.set("cli_invocations", cli.invocations);
    run.set("cli_exit_0", cli.ok);
    run.set("cli_reported_errors", cli.errors);
    run.set("exhaustive", true);
    run.set("explanation", "Library: the complete grid steps {0..8,12} x inner_steps {0..5,1000} x kt_start {0,0.1} x convergence {none,-1,0,1e-3,inf} x 3 answer patterns, every script with at most one (thorough: two, up to 6 steps) departure from the pattern, on the real optimiser: no panic; proposals counted by tagged draws lie in [steps - min(inner_steps,steps), steps]; with a threshold the proposal sequence is a bit-exact prefix of the run without it and an early exit happens only at a loop boundary after six consecutive loops that each improved by less than the threshold. CLI: a covering selection of the argument grid (7 groups x 6 shapes x 2 potentials x steps/inner_steps {0,1,7,10} x replications {0,1,2} x kt_start x kt_finish, plus malformed arguments) through the release binary built from /repo: exit 0 with two parsable files, or a non-zero status with an error message, never a panic.");
    run.require(lib.early_exits > 0, "no early exit was exercised");
    run.require(cli.ok > 0 && cli.errors > 0, "CLI sweep must see successes and reported errors");
    run.finish()
}

// ------------------------------------------------------------------------------------------
// replay of a recorded mcx case

pub fn replay(case: &Value) -> ! {
    calibrate();
    let cfg = Cfg::from_json(&case["cfg"]);
    let spec = if case.get("probe").is_some() { ProbeSpec::from_json(&case["probe"]) } else { ProbeSpec::interior(2) };
    match case["engine"].as_str() {
        Some("mcx") => {
            let script = script_from_json(&case["script"]);
            let bounds = step_bounds(&cfg, &spec);
            let obs = run_script(&cfg, &spec, &script);
            let an = analyse(&cfg, &obs, Some(&bounds));
            println!("configuration: {}", cfg.json());
            println!("initial: {:?}", obs.initial);
            for (i, p) in obs.proposals.iter().enumerate() {
                println!("step {:2}: proposal {:?} answer {:?} threshold {:?}", i + 1, p.params, p.answer, p.threshold);
            }
            println!("returned: {:?} score {:?} panic {:?}", obs.final_params, obs.final_score, obs.panic);
            println!("analysis: not_derived_at={:?} final_mismatch={} flags_in_every_history={:?} histories={} accept_word={:?}", an.not_derived_at, an.final_mismatch, flag_names(an.flags_all), an.histories, an.unique_word.map(|w| format!("{:b}", w)));
        }
        Some("mcx-bisect") => {
            let t = case["step"].as_u64().unwrap() as usize;
            let d = case["d"].as_f64().unwrap();
            println!("configuration: {}", cfg.json());
            println!("measured acceptance threshold at step {} for a move worse by {}: {:?}", t, d, accept_probability(&cfg, &spec, t, d));
            println!("Metropolis: exp(-d/kT_start) = {:e}", (-d / cfg.kt_start).exp());
        }
        Some("mcx-schedule") => {
            let (temps, _, fails) = c18_check_config(&cfg);
            println!("configuration: {}", cfg.json());
            println!("temperature per step: {:?}", temps);
            println!("findings: {:?}", fails);
        }
        _ => machinery_error("unknown replay engine"),
    }
    std::process::exit(0)
}
