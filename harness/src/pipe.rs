// The command line tool's private pipeline (`analyse_state`, included from /repo/src/main.rs) run
// in-process on a recording state of the harness's own: which replica is written (C10) and
// whether the requested temperature reaches the annealing stage (C18).

use std::sync::{Arc, Mutex};

use serde::{Serialize, Serializer};
use serde_json::{json, Value};
use svg::Document;

use packing::traits::*;
use packing::{BuildOptimiser, SharedValue, StandardBasis};

use crate::cli;
use crate::common::*;

#[derive(Clone, Copy, Debug, PartialEq)]
pub enum Landscape {
    /// 0.5 + scale * (bumpy function of the parameter): many local maxima, so replicas end apart
    Bumpy(f64),
    /// every evaluation scores lower than all before it by d
    AlwaysWorse(f64),
}

#[derive(Default, Debug)]
pub struct PipeLog {
    /// (instance, parameter bits, answer) per score() call
    pub events: Vec<(usize, u64, f64)>,
    pub instances: usize,
    pub calls: u64,
}

pub struct PipeState {
    p: SharedValue,
    land: Landscape,
    log: Arc<Mutex<PipeLog>>,
    inst: usize,
}

pub fn bumpy(scale: f64, p: f64) -> f64 {
    0.5 + scale * (0.5 * (37. * p).sin() + 0.3 * (101. * p + 1.).sin())
}

impl PipeState {
    pub fn new(land: Landscape, start: f64) -> (PipeState, Arc<Mutex<PipeLog>>) {
        let log = Arc::new(Mutex::new(PipeLog::default()));
        (PipeState { p: SharedValue::new(start), land, log: log.clone(), inst: 0 }, log)
    }
    fn value(&self) -> f64 {
        match self.land {
            Landscape::Bumpy(s) => bumpy(s, self.p.get_value()),
            Landscape::AlwaysWorse(_) => self.p.get_value(),
        }
    }
}

impl Clone for PipeState {
    fn clone(&self) -> Self {
        let inst = {
            let mut l = self.log.lock().unwrap();
            l.instances += 1;
            l.instances
        };
        PipeState { p: SharedValue::new(self.p.get_value()), land: self.land, log: self.log.clone(), inst }
    }
}
impl std::fmt::Debug for PipeState {
    fn fmt(&self, f: &mut std::fmt::Formatter) -> std::fmt::Result {
        write!(f, "PipeState({})", self.p.get_value())
    }
}
impl Serialize for PipeState {
    fn serialize<S: Serializer>(&self, s: S) -> Result<S::Ok, S::Error> {
        json!({"p": self.p.get_value(), "instance": self.inst}).serialize(s)
    }
}
impl PartialEq for PipeState {
    fn eq(&self, o: &Self) -> bool {
        self.value() == o.value()
    }
}
impl Eq for PipeState {}
impl PartialOrd for PipeState {
    fn partial_cmp(&self, o: &Self) -> Option<std::cmp::Ordering> {
        self.value().partial_cmp(&o.value())
    }
}
impl Ord for PipeState {
    fn cmp(&self, o: &Self) -> std::cmp::Ordering {
        self.partial_cmp(o).unwrap_or(std::cmp::Ordering::Equal)
    }
}
impl ToSVG for PipeState {
    type Value = Document;
    fn as_svg(&self) -> Document {
        Document::new()
    }
}
impl State for PipeState {
    fn score(&self) -> Option<f64> {
        let p = self.p.get_value();
        let mut l = self.log.lock().unwrap();
        l.calls += 1;
        let s = match self.land {
            Landscape::Bumpy(scale) => bumpy(scale, p),
            Landscape::AlwaysWorse(d) => 1. - d * l.calls as f64,
        };
        l.events.push((self.inst, p.to_bits(), s));
        Some(s)
    }
    fn generate_basis(&self) -> Vec<StandardBasis> {
        vec![StandardBasis::new(&self.p, 0., 1.)]
    }
    fn total_shapes(&self) -> usize {
        1
    }
    fn as_positions(&self) -> Result<String, anyhow::Error> {
        Ok(String::new())
    }
}

fn run_pipeline(land: Landscape, start: f64, reps: u64, opt: &BuildOptimiser, threads: usize) -> Result<(Value, PipeLog), String> {
    let (st, log) = PipeState::new(land, start);
    let out = cli::fresh_out();
    let pool = rayon::ThreadPoolBuilder::new().num_threads(threads).build().map_err(|e| e.to_string())?;
    let o2 = out.clone();
    let r = std::panic::catch_unwind(std::panic::AssertUnwindSafe(|| pool.install(|| cli::repo_main::call_analyse_state(o2, reps, st, opt))));
    let text = std::fs::read_to_string(out.with_extension("json"));
    let _ = std::fs::remove_file(out.with_extension("json"));
    let _ = std::fs::remove_file(out.with_extension("svg"));
    match r {
        Err(_) => return Err("the pipeline panicked".to_string()),
        Ok(Err(e)) => return Err(format!("the pipeline failed: {}", e)),
        Ok(Ok(())) => {}
    }
    let doc: Value = serde_json::from_str(&text.map_err(|e| e.to_string())?).map_err(|e| e.to_string())?;
    let l = std::mem::take(&mut *log.lock().unwrap());
    Ok((doc, l))
}

/// C10: the replica the pipeline writes is the highest-scoring of its replicas' results, also
/// when their scores agree to many digits. Returns (pipelines run, pipelines interpretable).
pub fn best_replica_is_written(run: &mut Run, tier: Tier) -> (u64, u64) {
    let mut jobs = vec![];
    for &scale in [1., 1e-6, 1e-9, 1e-13].iter() {
        for &k in tier.pick(vec![2u64, 3, 5, 8, 16, 40], vec![2u64, 3, 4, 5, 6, 8, 11, 16, 24, 40, 100]).iter() {
            for &threads in [1usize, 4].iter() {
                for &start in [0.31, 0.77].iter() {
                    jobs.push((scale, k, threads, start));
                }
            }
        }
    }
    let res = par_map(&jobs, |_, &(scale, k, threads, start)| {
        let mut b = BuildOptimiser::default();
        b.steps(60).inner_steps(20).kt_start(0.05 * scale).kt_finish(0.001 * scale).max_step_size(0.2);
        (run_pipeline(Landscape::Bumpy(scale), start, k, &b, threads), scale, k, threads, start)
    });
    let (mut n, mut interpretable) = (0u64, 0u64);
    for (r, scale, k, threads, start) in res {
        n += 1;
        let case = json!({"engine": "pipeline", "landscape": "bumpy", "scale": scale, "replications": k, "threads": threads, "start": start});
        let (doc, log) = match r {
            Ok(x) => x,
            Err(e) => {
                run.fail(None, &format!("in-process pipeline on a recording state: {}", e), case);
                continue;
            }
        };
        // one instance per replica is what the pipeline is expected to make of the start state; a
        // pipeline that copies states differently is not interpreted (no verdict)
        if log.instances as u64 != k {
            continue;
        }
        interpretable += 1;
        let mut last: Vec<Option<(u64, f64)>> = vec![None; log.instances + 1];
        for (inst, pb, s) in log.events.iter() {
            last[*inst] = Some((*pb, *s));
        }
        // every replica goes through the whole pipeline: none is dropped on the way
        let mut calls = vec![0u64; log.instances + 1];
        for (inst, _, _) in log.events.iter() {
            calls[*inst] += 1;
        }
        let most = calls.iter().skip(1).cloned().max().unwrap_or(0);
        if let Some((i, c)) = calls.iter().enumerate().skip(1).find(|(_, c)| **c < most) {
            run.fail(None, &format!("replica {} of {} was evaluated {} times, others {} times: it did not go through the whole pipeline, so the written structure is not the best of all replicas' results", i - 1, k, c, most), case.clone());
            continue;
        }
        let finals: Vec<(u64, f64)> = last.iter().skip(1).filter_map(|x| *x).collect();
        let best = finals.iter().map(|x| x.1).fold(f64::NEG_INFINITY, f64::max);
        let written_p = doc["p"].as_f64().unwrap_or(f64::NAN);
        let written = bumpy(scale, written_p);
        if finals.len() as u64 != k || !(written == best) {
            let mut sorted: Vec<f64> = finals.iter().map(|x| x.1).collect();
            sorted.sort_by(|a, b| b.partial_cmp(a).unwrap());
            run.fail(
                None,
                &format!("{} replicas ended with scores {:?} (best first) but the written one scores {}: not the highest-scoring replica", k, &sorted[..sorted.len().min(4)], written),
                case,
            );
        }
    }
    (n, interpretable)
}

/// C10: more replications never give a lower score - also across the default of 100 (the replicas
/// of a run with k replications are the first k of a run with more).
pub fn more_replicas_never_worse(run: &mut Run) -> u64 {
    let ks: Vec<u64> = vec![1, 2, 7, 50, 99, 100, 101, 120, 250];
    let res = par_map(&ks, |_, &k| {
        let mut b = BuildOptimiser::default();
        b.steps(60).inner_steps(20).kt_start(0.05).kt_finish(0.001).max_step_size(0.2);
        run_pipeline(Landscape::Bumpy(1.), 0.31, k, &b, 4).map(|(doc, _)| bumpy(1., doc["p"].as_f64().unwrap_or(f64::NAN)))
    });
    let mut prev: Option<(u64, f64)> = None;
    for (i, r) in res.into_iter().enumerate() {
        let case = json!({"engine": "pipeline", "landscape": "bumpy", "scale": 1., "replications": ks[i], "threads": 4, "start": 0.31});
        match r {
            Err(e) => run.fail(None, &format!("in-process pipeline on a recording state: {}", e), case),
            Ok(score) => {
                if let Some((pk, ps)) = prev {
                    if !(score >= ps) {
                        run.fail(None, &format!("{} replications give a lower score ({}) than {} ({}): the replicas of the shorter run are not among those of the longer one", ks[i], score, pk, ps), case);
                    }
                }
                prev = Some((ks[i], score));
            }
        }
    }
    ks.len() as u64
}

/// C18 at the command line: the temperature asked for reaches the annealing stage. On a landscape
/// where every evaluation is worse than all before by d, a pipeline run moves the state iff some
/// stage accepts worse moves: it must for kt_start >> d and must not for kt_start = 0.
pub fn requested_temperature_reaches_the_pipeline(run: &mut Run) -> u64 {
    let mut n = 0;
    for &(kt, d, moves) in [(0.5, 1e-7, true), (1e-3, 1e-10, true), (0., 1e-7, false), (0.5, 1e3, false)].iter() {
        for &(steps, inner) in [(200u64, 50u64), (60, 60)].iter() {
            for &reps in [1u64, 3].iter() {
                let mut b = BuildOptimiser::default();
                b.steps(steps).inner_steps(inner).kt_start(kt).kt_finish(kt * 0.1).max_step_size(0.1);
                n += 1;
                let case = json!({"engine": "pipeline", "landscape": "always-worse", "d": d, "kt_start": kt, "kt_finish": kt * 0.1, "steps": steps, "inner_steps": inner, "replications": reps});
                match run_pipeline(Landscape::AlwaysWorse(d), 0.5, reps, &b, 2) {
                    Err(e) => run.fail(None, &format!("in-process pipeline on a recording state: {}", e), case),
                    Ok((doc, _)) => {
                        let p = doc["p"].as_f64().unwrap_or(f64::NAN);
                        let moved = p.to_bits() != 0.5f64.to_bits();
                        if moved != moves {
                            let what = if moves {
                                format!("the command line pipeline asked to anneal from kt_start = {} never accepted a move that was worse by {}: no stage ran at the requested temperature", kt, d)
                            } else {
                                format!("the command line pipeline with kt_start = {} accepted a move that was worse by {}", kt, d)
                            };
                            run.fail(None, &what, case);
                        }
                    }
                }
            }
        }
    }
    n
}
