// Shared infrastructure: tiers, evidence files, known findings, violation reporting, parallel map.

use std::collections::BTreeMap;
use std::fs;
use std::path::PathBuf;
use std::sync::atomic::{AtomicUsize, Ordering};
use std::sync::Mutex;
use std::time::Instant;

use serde_json::{json, Map, Value};

pub const VERIF_DIR: &str = "/verif";

#[derive(Clone, Copy, PartialEq, Eq, Debug)]
pub enum Tier {
    Quick,
    Thorough,
}

impl Tier {
    pub fn name(self) -> &'static str {
        match self {
            Tier::Quick => "quick",
            Tier::Thorough => "thorough",
        }
    }
    pub fn pick<T>(self, quick: T, thorough: T) -> T {
        match self {
            Tier::Quick => quick,
            Tier::Thorough => thorough,
        }
    }
}

pub fn machinery_error(msg: &str) -> ! {
    eprintln!("MACHINERY-ERROR: {}", msg);
    std::process::exit(2)
}

pub fn threads() -> usize {
    std::env::var("PVX_THREADS")
        .ok()
        .and_then(|s| s.parse().ok())
        .unwrap_or_else(|| {
            std::thread::available_parallelism()
                .map(|n| n.get())
                .unwrap_or(4)
        })
}

/// Order-preserving parallel map over a slice with a shared work counter.
pub fn par_map<T: Sync, R: Send, F: Fn(usize, &T) -> R + Sync>(items: &[T], f: F) -> Vec<R> {
    let n = items.len();
    let next = AtomicUsize::new(0);
    let out: Mutex<Vec<Option<R>>> = Mutex::new((0..n).map(|_| None).collect());
    let nthreads = threads().min(n.max(1));
    std::thread::scope(|s| {
        for _ in 0..nthreads {
            s.spawn(|| loop {
                let i = next.fetch_add(1, Ordering::Relaxed);
                if i >= n {
                    break;
                }
                let r = f(i, &items[i]);
                out.lock().unwrap()[i] = Some(r);
            });
        }
    });
    out.into_inner()
        .unwrap()
        .into_iter()
        .map(|x| x.expect("worker did not produce a result"))
        .collect()
}

/// The committed list of known findings (never written at run time).
pub struct Known {
    keys: BTreeMap<(String, String), String>,
}

impl Known {
    pub fn load() -> Known {
        let path = format!("{}/known_findings.json", VERIF_DIR);
        let mut keys = BTreeMap::new();
        if let Ok(text) = fs::read_to_string(&path) {
            let v: Value = serde_json::from_str(&text)
                .unwrap_or_else(|e| machinery_error(&format!("known_findings.json: {}", e)));
            if let Some(list) = v.get("findings").and_then(|f| f.as_array()) {
                for f in list {
                    let p = f["property"].as_str().unwrap_or("").to_string();
                    let k = f["key"].as_str().unwrap_or("").to_string();
                    let w = f["what"].as_str().unwrap_or("").to_string();
                    keys.insert((p, k), w);
                }
            }
        }
        Known { keys }
    }
    pub fn what(&self, prop: &str, key: &str) -> Option<&String> {
        self.keys.get(&(prop.to_string(), key.to_string()))
    }
}

/// One run of one check: counters, samples, violations, evidence.
pub struct Run {
    pub prop: String,
    pub tier: Tier,
    pub seed: u64,
    pub level: &'static str,
    start: Instant,
    known: Known,
    pub coverage: Map<String, Value>,
    pub assumptions: Vec<String>,
    samples: Vec<Value>,
    violations: usize,
    violation_files: usize,
    known_hits: BTreeMap<String, (usize, Value)>,
    kinds: BTreeMap<String, usize>,
    vacuous: Vec<String>,
    pub capped: bool,
}

impl Run {
    pub fn new(prop: &str, tier: Tier, level: &'static str) -> Run {
        let seed = std::env::var("VERIF_SEED")
            .ok()
            .and_then(|s| s.parse::<i64>().ok())
            .map(|s| s as u64)
            .unwrap_or(0);
        Run {
            prop: prop.to_string(),
            tier,
            seed,
            level,
            start: Instant::now(),
            known: Known::load(),
            coverage: Map::new(),
            assumptions: vec![],
            samples: vec![],
            violations: 0,
            violation_files: 0,
            known_hits: BTreeMap::new(),
            kinds: BTreeMap::new(),
            vacuous: vec![],
            capped: false,
        }
    }

    pub fn elapsed(&self) -> f64 {
        self.start.elapsed().as_secs_f64()
    }

    pub fn set<V: Into<Value>>(&mut self, key: &str, v: V) {
        self.coverage.insert(key.to_string(), v.into());
    }

    pub fn add(&mut self, key: &str, n: u64) {
        let cur = self.coverage.get(key).and_then(|v| v.as_u64()).unwrap_or(0);
        self.coverage.insert(key.to_string(), json!(cur + n));
    }

    pub fn get(&self, key: &str) -> u64 {
        self.coverage.get(key).and_then(|v| v.as_u64()).unwrap_or(0)
    }

    pub fn sample(&mut self, v: Value) {
        if self.samples.len() < 12 {
            self.samples.push(v);
        }
    }

    pub fn assume(&mut self, s: &str) {
        self.assumptions.push(s.to_string());
    }

    /// Report one failing case. `key` is the name of the known-finding predicate the case
    /// satisfies (decided by harness code from the failing input), if any; the case is a known
    /// finding only if that key is listed for this property in known_findings.json.
    pub fn fail(&mut self, key: Option<&str>, what: &str, replay: Value) {
        if let Some(k) = key {
            if self.known.what(&self.prop, k).is_some() {
                let e = self
                    .known_hits
                    .entry(k.to_string())
                    .or_insert((0, json!({"what": what, "case": replay})));
                e.0 += 1;
                return;
            }
        }
        self.violations += 1;
        let kind: String = what.chars().take_while(|c| !c.is_ascii_digit() && *c != '=').take(70).collect();
        *self.kinds.entry(kind).or_insert(0) += 1;
        if self.violation_files < 5 {
            self.violation_files += 1;
            let dir = format!("{}/replays", VERIF_DIR);
            let _ = fs::create_dir_all(&dir);
            let path = format!("{}/{}-{}-{}.json", dir, self.prop, self.tier.name(), self.violation_files);
            let doc = json!({"property": self.prop, "what": what, "key": key, "case": replay});
            if let Err(e) = fs::write(&path, serde_json::to_string_pretty(&doc).unwrap()) {
                eprintln!("cannot write replay {}: {}", path, e);
            }
            println!("VIOLATION property={} replay={}", self.prop, path);
            println!("  what: {}", what);
        }
    }

    pub fn violations(&self) -> usize {
        self.violations
    }

    /// Refuse to report success for a vacuous run. A run that found violations reports those
    /// (exit 1); only a silent run that was vacuous is a machinery error (exit 2).
    pub fn require(&mut self, cond: bool, what: &str) {
        if !cond {
            self.vacuous.push(what.to_string());
        }
    }

    /// Write the evidence file and exit with the contract's status.
    pub fn finish(mut self) -> ! {
        if self.violations == 0 && !self.vacuous.is_empty() {
            machinery_error(&format!("{}: vacuous or inconsistent run: {}", self.prop, self.vacuous.join("; ")));
        }
        for (k, (n, ex)) in self.known_hits.iter() {
            let what = self.known.what(&self.prop, k).cloned().unwrap_or_default();
            println!(
                "KNOWN-FINDING: property={} key={} cases={} {}",
                self.prop, k, n, what
            );
            self.coverage.insert(
                format!("known_finding_{}", k),
                json!({"cases": n, "example": ex}),
            );
        }
        if !self.kinds.is_empty() {
            println!("violation kinds: {:?}", self.kinds);
            self.coverage.insert("violation_kinds".to_string(), json!(self.kinds));
        }
        if !self.samples.is_empty() {
            self.coverage
                .insert("samples".to_string(), Value::Array(self.samples.clone()));
        }
        self.coverage.insert("capped".to_string(), json!(self.capped));
        let wall = self.elapsed();
        let doc = json!({
            "property_id": self.prop,
            "tier": self.tier.name(),
            "seed": self.seed as i64,
            "level": self.level,
            "coverage": Value::Object(self.coverage.clone()),
            "assumptions": self.assumptions,
            "wall_s": wall,
            "violations": self.violations as i64,
        });
        // (PVX_EVIDENCE_DIR: scratch runs against modified trees must not overwrite the evidence
        // of the unchanged tree)
        let dir = std::env::var("PVX_EVIDENCE_DIR").unwrap_or_else(|_| format!("{}/evidence", VERIF_DIR));
        let path: PathBuf = [dir.as_str(), &format!("{}.json", self.prop)].iter().collect();
        let _ = fs::create_dir_all(path.parent().unwrap());
        fs::write(&path, serde_json::to_string_pretty(&doc).unwrap())
            .unwrap_or_else(|e| machinery_error(&format!("cannot write evidence: {}", e)));
        println!(
            "{} {}: violations={} known_finding_keys={} wall={:.1}s evidence={}",
            self.prop,
            self.tier.name(),
            self.violations,
            self.known_hits.len(),
            wall,
            path.display()
        );
        std::process::exit(if self.violations > 0 { 1 } else { 0 })
    }
}

pub fn f64_bits_json(x: f64) -> Value {
    json!({"v": x, "bits": format!("{:016x}", x.to_bits())})
}

// ------------------------------------------------------------------------------------------
// logging as part of the environment: with a logger installed and the level raised, the crate's
// log statements evaluate and format their arguments

struct SinkLogger;
impl log::Log for SinkLogger {
    fn enabled(&self, _: &log::Metadata) -> bool {
        true
    }
    fn log(&self, record: &log::Record) {
        let _ = format!("{}", record.args());
    }
    fn flush(&self) {}
}
static SINK: SinkLogger = SinkLogger;

/// Switch the crate's log statements on (every level, formatted and discarded) or off.
pub fn logging(on: bool) {
    static INIT: std::sync::Once = std::sync::Once::new();
    INIT.call_once(|| {
        let _ = log::set_logger(&SINK);
    });
    log::set_max_level(if on { log::LevelFilter::Trace } else { log::LevelFilter::Off });
}

// ------------------------------------------------------------------------------------------
// a panic of the crate under test that escapes a sweep is a verdict, not a harness crash

static CRATE_PANICS: Mutex<Vec<(String, String)>> = Mutex::new(Vec::new());

/// Install the process-wide panic hook: it prints as usual and remembers panics raised at a source
/// location of the crate under test (an absolute path outside the toolchain and the registry; the
/// harness's own locations are relative).
pub fn install_panic_probe() {
    let default = std::panic::take_hook();
    std::panic::set_hook(Box::new(move |info| {
        if let Some(loc) = info.location() {
            let f = loc.file();
            if f.starts_with('/') && !f.starts_with("/rustc/") && !f.contains("/.cargo/") && !f.contains("/rustlib/") {
                let msg = if let Some(s) = info.payload().downcast_ref::<&str>() {
                    s.to_string()
                } else if let Some(s) = info.payload().downcast_ref::<String>() {
                    s.clone()
                } else {
                    "panic".to_string()
                };
                if let Ok(mut l) = CRATE_PANICS.lock() {
                    if l.len() < 16 {
                        l.push((format!("{}:{}:{}", f, loc.line(), loc.column()), msg));
                    }
                }
            }
        }
        default(info);
    }));
}

/// Called when a panic escaped a check: exit 1 with a VIOLATION line if the crate under test
/// panicked, exit 2 (machinery error) otherwise.
pub fn escaped_panic(prop: &str, tier: &str) -> ! {
    let crate_panics = CRATE_PANICS.lock().map(|l| l.clone()).unwrap_or_default();
    match crate_panics.last() {
        Some((loc, msg)) => {
            let dir = format!("{}/replays", VERIF_DIR);
            let _ = fs::create_dir_all(&dir);
            let path = format!("{}/{}-{}-panic.json", dir, prop, tier);
            let what = format!("the crate panicked at {} ({}) while the check was evaluating its inputs, outside any step the check expects to be able to fail", loc, msg);
            let doc = json!({"property": prop, "what": what, "key": null, "case": {"engine": "panic", "locations": crate_panics.iter().map(|(l, m)| json!({"at": l, "message": m})).collect::<Vec<_>>()}});
            let _ = fs::write(&path, serde_json::to_string_pretty(&doc).unwrap_or_default());
            println!("VIOLATION property={} replay={}", prop, path);
            println!("  what: {}", what);
            std::process::exit(1)
        }
        None => machinery_error("a panic of the harness itself escaped the check (see the message above)"),
    }
}
