// pvx: bounded exhaustive exploration of malramsay64/pypacking (see /verif/DESIGN.md).

mod cli;
mod common;
mod geo1;
mod geo2;
mod ilv;
mod io_props;
mod rsx;
mod mc_props;
mod mcx;
mod oracle;
mod pipe;
mod states;
mod sym;

use common::*;

fn usage() -> ! {
    eprintln!("usage: pvx <property-id> quick|thorough | pvx <property-id> --replay <file> | pvx selftest");
    std::process::exit(2)
}

fn main() {
    let args: Vec<String> = std::env::args().collect();
    if args.len() < 2 {
        usage();
    }
    if let Err(e) = oracle::self_test() {
        machinery_error(&format!("oracle self-test failed: {}", e));
    }
    if args[1] == "selftest" {
        println!("oracle self-tests passed");
        return;
    }
    if args.len() < 3 {
        usage();
    }
    let prop = args[1].as_str();
    if args[2] == "--replay" {
        if args.len() < 4 {
            usage();
        }
        replay(prop, &args[3]);
    }
    let tier = match args[2].as_str() {
        "quick" => Tier::Quick,
        "thorough" => Tier::Thorough,
        _ => usage(),
    };
    common::install_panic_probe();
    let tier_name = args[2].clone();
    let prop_name = prop.to_string();
    let r = std::panic::catch_unwind(std::panic::AssertUnwindSafe(|| dispatch(&prop_name, tier)));
    if r.is_err() {
        common::escaped_panic(prop, &tier_name);
    }
}

fn dispatch(prop: &str, tier: Tier) {
    match prop {
        "C01" => geo2::c01(tier),
        "C03" => geo2::c03(tier),
        "C04" => geo2::c04(tier),
        "C08" => rsx::c08(tier),
        "C09" => ilv::c09(tier),
        "C10" => io_props::c10(tier),
        "C11" => io_props::c11(tier),
        "C02" => geo1::c02(tier),
        "C05" => mc_props::c05(tier),
        "C06" => mc_props::c06(tier),
        "C07" => mc_props::c07(tier),
        "C18" => mc_props::c18(tier),
        "C19" => mc_props::c19(tier),
        "C20" => mc_props::c20(tier),
        "C12" => geo1::c12(tier),
        "C13" => geo1::c13(tier),
        "C14" => geo1::c14(tier),
        "C15" => geo1::c15(tier),
        "C16" => sym::c16(tier),
        "C17" => sym::c17(tier),
        _ => machinery_error(&format!("no check for {}", prop)),
    }
}

fn replay(prop: &str, path: &str) -> ! {
    let text = std::fs::read_to_string(path).unwrap_or_else(|e| machinery_error(&format!("{}: {}", path, e)));
    let doc: serde_json::Value = serde_json::from_str(&text).unwrap_or_else(|e| machinery_error(&format!("{}: {}", path, e)));
    println!("replay of {} for {}: {}", path, prop, doc["what"]);
    let case = &doc["case"];
    if case.get("engine").and_then(|e| e.as_str()).map(|e| e.starts_with("mcx")).unwrap_or(false) {
        mc_props::replay(case);
    }
    if case.get("engine").and_then(|e| e.as_str()) == Some("state") {
        geo2::replay_state(prop, case);
    }
    if case.get("engine").and_then(|e| e.as_str()) == Some("ilv") {
        ilv::replay(case);
    }
    if case.get("engine").and_then(|e| e.as_str()) == Some("rsx") {
        rsx::replay(case);
    }
    if case.get("engine").and_then(|e| e.as_str()) == Some("cli") {
        cli::replay_cli(case);
    }
    if case.get("engine").and_then(|e| e.as_str()) == Some("document") {
        io_props::replay_document(case);
    }
    // whole-run comparisons (thread pools, histories on one thread, reduction trees, the Miri
    // pass, aggregate counts): the recorded case names the plan; re-running the check re-executes it
    println!("{}", serde_json::to_string_pretty(&doc).unwrap());
    println!("this case is a comparison between whole runs; re-execute it with ./check {} quick|thorough", prop);
    std::process::exit(0)
}
