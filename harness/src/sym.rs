// C16 (group tables) and C17 (operation-string parser): finite, complete enumerations.

use std::panic;

use nalgebra::Point2;
use serde_json::json;

use packing::wallpaper::{get_wallpaper_group, WyckoffSite};
use packing::Transform2;

use crate::common::*;
use crate::oracle::*;

fn mod1_eq(a: f64, b: f64) -> bool {
    dist_to_int(a - b) < 1e-12
}

fn aff_eq_mod_lattice(a: &Aff, b: &Aff) -> bool {
    a.m == b.m && mod1_eq(a.t[0], b.t[0]) && mod1_eq(a.t[1], b.t[1])
}

/// The operation strings a user might give for the table of `donor` (plain crystallographic
/// notation, independent of the crate's own tables).
fn ita_strings_for_user_group(donor: &str) -> Vec<&'static str> {
    match donor {
        "p1" => vec!["x,y"],
        "p2" => vec!["x,y", "-x,-y"],
        "p1m1" => vec!["x,y", "-x,y"],
        "p1g1" => vec!["x,y", "-x,y+1/2"],
        "p2mm" => vec!["x,y", "-x,-y", "-x,y", "x,-y"],
        "p2mg" => vec!["x,y", "-x,-y", "-x+1/2,y", "x+1/2,-y"],
        _ => vec!["x,y", "-x,-y", "-x+1/2,y+1/2", "x+1/2,-y+1/2"],
    }
}

pub fn c16(tier: Tier) -> ! {
    let mut run = Run::new("C16", tier, "exploration");
    run.set(
        "rule",
        "complete: 7 groups, asked for three times in two orders on one thread; every listed operation, every ordered pair of operations, every inverse, compared with an independent ITA table; every operation conjugated into every cell of a family grid. Non-trivial = a (group, operation pair) or (group, operation, cell) obligation that was evaluated",
    );
    let mut evals = 0u64;
    let mut distinct = 0u64;
    // cell grid per family for the isometry clause
    let lengths = [0.01, 0.5, 1., 3.7, 100.];
    let ratios = [0.1, 0.34, 0.73, 1.];
    let angles = [std::f64::consts::PI / 6., 1., 1.3, std::f64::consts::PI / 2.];
    // three passes over the table on one thread (forward, reverse, forward): what a name yields
    // must not depend on what was asked for before
    // (a fourth pass follows sites built on this thread for user-made groups that reuse each
    // built-in name with another group's table: a name asked for afterwards still yields its own)
    let order: Vec<&str> = GROUP_NAMES.iter().cloned().chain(GROUP_NAMES.iter().rev().cloned()).chain(GROUP_NAMES.iter().cloned()).chain(GROUP_NAMES.iter().cloned()).collect();
    let mut user_made = 0u64;
    // the same on a thread that has never seen a built-in group: user-made groups first (every
    // built-in name with another group's table), then the built-in names
    let fresh: Vec<(String, Vec<Aff>)> = std::thread::spawn(|| {
        let mut out = vec![];
        for (k, reused) in GROUP_NAMES.iter().enumerate() {
            let donor = GROUP_NAMES[(k + 3) % GROUP_NAMES.len()];
            let table: Vec<&str> = ita_strings_for_user_group(donor);
            let user = packing::wallpaper::WallpaperGroup { name: reused, family: packing::CrystalFamily::Monoclinic, wyckoff_str: table };
            let _ = WyckoffSite::new(&user);
        }
        for name in GROUP_NAMES.iter() {
            if let Ok(g) = get_wallpaper_group(wallpaper_enum(name)) {
                if let Ok(site) = WyckoffSite::new(&g) {
                    out.push((name.to_string(), site.symmetries.iter().map(Aff::from_t2).collect()));
                }
            }
        }
        out
    })
    .join()
    .unwrap_or_else(|_| machinery_error("the fresh-thread pass panicked"));
    for (name, ops) in fresh.iter() {
        evals += 1;
        let ita: Vec<Aff> = ita_ops(name).iter().map(|o| o.as_aff()).collect();
        if ops.len() != ita.len() || ops.iter().any(|o| ita.iter().filter(|i| aff_eq_mod_lattice(o, i)).count() != 1) {
            run.fail(None, &format!("{}: asked for on a thread that had first built sites for user-made groups reusing the built-in names, the operations are not the general positions of the group", name), json!({"group": name, "engine": "after-user-made", "parsed_ops": ops.iter().map(|o| json!({"m": o.m, "t": o.t})).collect::<Vec<_>>()}));
        }
    }
    run.set("groups_asked_for_after_user_made_groups_on_a_fresh_thread", fresh.len() as u64);
    for (oi, name) in order.iter().enumerate() {
        if oi == 3 * GROUP_NAMES.len() {
            for (k, reused) in GROUP_NAMES.iter().enumerate() {
                let donor = GROUP_NAMES[(k + 3) % GROUP_NAMES.len()];
                if let Ok(dg) = get_wallpaper_group(wallpaper_enum(donor)) {
                    let user = packing::wallpaper::WallpaperGroup { name: reused, family: dg.family.clone(), wyckoff_str: dg.wyckoff_str.clone() };
                    if let Ok(site) = WyckoffSite::new(&user) {
                        user_made += 1;
                    }
                }
            }
        }
        // the second pass runs with every log statement of the crate switched on
        crate::common::logging(oi >= GROUP_NAMES.len() && oi < 2 * GROUP_NAMES.len());
        let group = match get_wallpaper_group(wallpaper_enum(name)) {
            Ok(g) => g,
            Err(e) => {
                run.fail(None, &format!("group {} not available: {}", name, e), json!({"group": name}));
                continue;
            }
        };
        let site = match WyckoffSite::new(&group) {
            Ok(s) => s,
            Err(e) => {
                run.fail(None, &format!("group {} does not parse: {}", name, e), json!({"group": name}));
                continue;
            }
        };
        let ops: Vec<Aff> = site.symmetries.iter().map(Aff::from_t2).collect();
        let ita: Vec<Aff> = ita_ops(name).iter().map(|o| o.as_aff()).collect();
        let case = |extra: serde_json::Value| json!({"group": name, "parsed_ops": ops.iter().map(|o| json!({"m": o.m, "t": o.t})).collect::<Vec<_>>(), "detail": extra});
        evals += 1;
        // order
        if ops.len() != ita.len() {
            run.fail(None, &format!("{}: {} operations, the group has {}", name, ops.len(), ita.len()), case(json!(null)));
        }
        // set equality modulo lattice translations
        for (k, o) in ops.iter().enumerate() {
            evals += 1;
            distinct += 1;
            let hits = ita.iter().filter(|i| aff_eq_mod_lattice(o, i)).count();
            if hits != 1 {
                run.fail(None, &format!("{}: operation {} is not a general position of the group", name, k), case(json!({"op": k})));
            }
            let dup = ops.iter().filter(|p| aff_eq_mod_lattice(o, p)).count();
            if dup != 1 {
                run.fail(None, &format!("{}: operation {} listed more than once", name, k), case(json!({"op": k})));
            }
        }
        for i in ita.iter() {
            evals += 1;
            if !ops.iter().any(|o| aff_eq_mod_lattice(o, i)) {
                run.fail(None, &format!("{}: general position {:?} missing", name, i), case(json!(null)));
            }
        }
        // identity, closure, inverses
        if !ops.iter().any(|o| aff_eq_mod_lattice(o, &Aff::identity())) {
            run.fail(None, &format!("{}: identity missing", name), case(json!(null)));
        }
        for (ia, a) in ops.iter().enumerate() {
            let mut has_inverse = false;
            for (ib, b) in ops.iter().enumerate() {
                evals += 1;
                distinct += 1;
                let c = a.after(b);
                if !ops.iter().any(|o| aff_eq_mod_lattice(o, &c)) {
                    run.fail(None, &format!("{}: not closed: op{} * op{}", name, ia, ib), case(json!({"a": ia, "b": ib})));
                }
                if aff_eq_mod_lattice(&c, &Aff::identity()) {
                    has_inverse = true;
                }
            }
            if !has_inverse {
                run.fail(None, &format!("{}: op{} has no inverse", name, ia), case(json!({"a": ia})));
            }
        }
        // content: two-folds, mirrors, glides
        let (mut twofold, mut mirrors, mut glides, mut other) = (0, 0, 0, 0);
        for o in ops.iter() {
            if aff_eq_mod_lattice(o, &Aff::identity()) {
                continue;
            }
            let det = o.det();
            if det == 1. && o.m == [[-1., 0.], [0., -1.]] {
                twofold += 1;
            } else if det == -1. {
                // intrinsic translation: (W + I)/2 applied to t
                let ti = [
                    0.5 * ((o.m[0][0] + 1.) * o.t[0] + o.m[0][1] * o.t[1]),
                    0.5 * (o.m[1][0] * o.t[0] + (o.m[1][1] + 1.) * o.t[1]),
                ];
                if dist_to_int(ti[0]) < 1e-12 && dist_to_int(ti[1]) < 1e-12 {
                    mirrors += 1;
                } else if dist_to_int(2. * ti[0]) < 1e-12 && dist_to_int(2. * ti[1]) < 1e-12 {
                    glides += 1;
                } else {
                    other += 1;
                }
            } else {
                other += 1;
            }
        }
        evals += 1;
        if (twofold, mirrors, glides) != ita_content(name) || other != 0 {
            run.fail(
                None,
                &format!("{}: content (two-folds, mirrors, glides, other) = {:?}, expected {:?}", name, (twofold, mirrors, glides, other), ita_content(name)),
                case(json!(null)),
            );
        }
        // family
        let fam = format!("{:?}", group.family);
        evals += 1;
        if fam != ita_family(name) {
            run.fail(None, &format!("{}: family {} but the group's cells are {}", name, fam, ita_family(name)), case(json!(null)));
        }
        // every operation is an isometry of every cell of the family the crate pairs it with
        let cell_angles: Vec<f64> = if fam == "Monoclinic" { angles.to_vec() } else { vec![std::f64::consts::PI / 2.] };
        for &l in lengths.iter() {
            for &r in ratios.iter() {
                for &th in cell_angles.iter() {
                    let lat = Lattice::new(l, r, th);
                    for (k, o) in ops.iter().enumerate() {
                        evals += 1;
                        distinct += 1;
                        // G = M W M^-1 : columns are images of the Cartesian unit vectors
                        let g = |v: P2| lat.cart(o.lin(lat.frac(v)));
                        let c0 = g([1., 0.]);
                        let c1 = g([0., 1.]);
                        let err = (dot(c0, c0) - 1.).abs().max((dot(c1, c1) - 1.).abs()).max(dot(c0, c1).abs());
                        if err > 1e-9 {
                            run.fail(None, &format!("{}: op{} is not an isometry of cell ({}, {}, {}): |GtG-I|={:e}", name, k, l, r, th, err), case(json!({"op": k, "cell": [l, r, th]})));
                        }
                    }
                }
            }
        }
        run.sample(json!({"group": name, "family": fam, "strings": group.wyckoff_str, "content": [twofold, mirrors, glides]}));
    }
    crate::common::logging(false);
    // depth-2 histories: on a fresh thread one operation string goes through the parser (valid
    // ones, and ones the parser must reject at its first or second component), then a group is
    // built; its operations are the ITA general positions whatever was parsed before
    let preludes: Vec<&str> = vec![
        "x, y", "-x, -y", "x+1/2, -y+1/2", "y, x", "(-x, y+0.5)", "x+1/2, y+1/4 ?", "x, q", "q, x", "x", "", "x,y,z", "x+, y", "x, y+", "-x+1/2, 2", "(x, y", "x, y)", "x+1/2", "1/2, 1/2", "x, y/0",
    ];
    let mut pj: Vec<(usize, usize)> = vec![];
    for a in 0..preludes.len() {
        for b in 0..GROUP_NAMES.len() {
            pj.push((a, b));
        }
    }
    let res = crate::common::par_map(&pj, |_, &(ia, ib)| {
        let name = GROUP_NAMES[ib];
        let text = preludes[ia].to_string();
        let got: Result<Vec<Aff>, String> = std::thread::scope(|sc| {
            sc.spawn(|| {
                let _ = std::panic::catch_unwind(|| packing::Transform2::from_operations(&text).is_ok());
                let group = get_wallpaper_group(wallpaper_enum(name)).map_err(|e| e.to_string())?;
                let site = WyckoffSite::new(&group).map_err(|e| e.to_string())?;
                Ok(site.symmetries.iter().map(Aff::from_t2).collect())
            })
            .join()
            .unwrap_or_else(|_| Err("panic".to_string()))
        });
        let ita: Vec<Aff> = ita_ops(name).iter().map(|o| o.as_aff()).collect();
        match got {
            Err(e) => Some(format!("{}: cannot be built right after {:?} went through the operation parser on the same thread: {}", name, preludes[ia], e)),
            Ok(ops) => {
                let same = ops.len() == ita.len() && ita.iter().all(|i| ops.iter().filter(|o| aff_eq_mod_lattice(o, i)).count() == 1);
                if same {
                    None
                } else {
                    Some(format!("{}: built right after {:?} went through the operation parser on the same thread, its operations are not the group's general positions: {:?}", name, preludes[ia], ops.iter().map(|o| (o.m, o.t)).collect::<Vec<_>>()))
                }
            }
        }
    });
    for (i, r) in res.into_iter().enumerate() {
        evals += 1;
        if let Some(w) = r {
            run.fail(None, &w, json!({"engine": "parse-then-build", "parsed_first": preludes[pj[i].0], "group": GROUP_NAMES[pj[i].1]}));
        }
    }
    run.set("groups_built_after_one_parse_on_a_fresh_thread", pj.len() as u64);
    // names as the command line reads them (the enum's own FromStr): every upper/lower-case
    // spelling of the seven names and the short Hermann-Mauguin symbols; a spelling that is
    // accepted must yield the table of the group it spells
    let short: [(&str, &str); 5] = [("pm", "p1m1"), ("pg", "p1g1"), ("pmm", "p2mm"), ("pmg", "p2mg"), ("pgg", "p2gg")];
    let mut spellings: Vec<(String, &str)> = vec![];
    for name in GROUP_NAMES.iter().cloned().chain(short.iter().map(|x| x.0)) {
        let target = short.iter().find(|x| x.0 == name).map(|x| x.1).unwrap_or(name);
        let chars: Vec<char> = name.chars().collect();
        for mask in 0..(1u32 << chars.len()) {
            let sp: String = chars.iter().enumerate().map(|(i, c)| if mask >> i & 1 == 1 { c.to_ascii_uppercase() } else { *c }).collect();
            if !spellings.iter().any(|(x, _)| *x == sp) {
                spellings.push((sp, target));
            }
        }
    }
    let mut accepted = 0u64;
    for (sp, target) in spellings.iter() {
        evals += 1;
        let parsed = match std::panic::catch_unwind(|| sp.parse::<packing::wallpaper::WallpaperGroups>()) {
            Ok(p) => p,
            Err(_) => {
                run.fail(None, &format!("reading the group name {:?} panicked", sp), json!({"engine": "name", "name": sp}));
                continue;
            }
        };
        if let Ok(g) = parsed {
            accepted += 1;
            let ok = match get_wallpaper_group(g).and_then(|grp| WyckoffSite::new(&grp).map(|s| (format!("{:?}", grp.family), s))) {
                Ok((fam, site)) => {
                    let ops: Vec<Aff> = site.symmetries.iter().map(Aff::from_t2).collect();
                    let ita: Vec<Aff> = ita_ops(target).iter().map(|o| o.as_aff()).collect();
                    fam == ita_family(target) && ops.len() == ita.len() && ita.iter().all(|i| ops.iter().filter(|o| aff_eq_mod_lattice(o, i)).count() == 1)
                }
                Err(_) => false,
            };
            if !ok {
                run.fail(None, &format!("the group name {:?} is accepted but does not yield the operations and family of {}", sp, target), json!({"engine": "name", "name": sp, "group": target}));
            }
        }
    }
    // the pairing of a group with its crystal family as a state carries it: a state built for
    // the group, the same state written and read back, and that one written again all name the
    // family of the group in the label and in the cell, and offer the cell angle as a degree of
    // freedom exactly when the family is oblique
    let mut paired = 0u64;
    for name in GROUP_NAMES.iter() {
        for spec in [crate::states::ShapeSpec::Polygon(4), crate::states::ShapeSpec::LjCircle].iter() {
            let built = crate::states::AnyState::from_group(name, spec);
            let doc = built.to_json();
            let reread = match crate::states::AnyState::from_json(&doc) {
                Ok(s) => s,
                Err(e) => {
                    run.fail(None, &format!("{}: a state built for the group does not read back: {}", name, e), json!({"engine": "pairing", "group": name}));
                    continue;
                }
            };
            let doc2 = reread.to_json();
            let want = ita_family(name);
            let dof = if want == "Monoclinic" { 6 } else { 5 };
            let copy = built.clone();
            let doc3 = copy.to_json();
            for (what, d, st) in [("built for the group", &doc, &built), ("written and read back", &doc2, &reread), ("copied", &doc3, &copy)].iter() {
                // (the operations it carries are still the group's)
                let ita: Vec<Aff> = ita_ops(name).iter().map(|o| o.as_aff()).collect();
                let carried: Vec<Aff> = d["occupied_sites"][0]["wyckoff"]["symmetries"].as_array().map(|l| l.iter().filter_map(Aff::from_json9).collect()).unwrap_or_default();
                if !(carried.len() == ita.len() && ita.iter().all(|i| carried.iter().filter(|o| aff_eq_mod_lattice(o, i)).count() == 1)) {
                    run.fail(None, &format!("{}: a state {} no longer carries the general positions of the group", name, what), json!({"engine": "pairing", "group": name, "state": d}));
                }
                paired += 1;
                evals += 1;
                let fam = (d["wallpaper"]["family"].as_str().unwrap_or(""), d["cell"]["family"].as_str().unwrap_or(""));
                let nb = st.basis_values().len();
                if fam.0 != want || fam.1 != want || nb != dof {
                    run.fail(None, &format!("{}: a state {} names the families {:?} / {:?} and has {} degrees of freedom; the group's cells are {} ({} degrees of freedom)", name, what, fam.0, fam.1, nb, want, dof), json!({"engine": "pairing", "group": name, "state": d}));
                }
            }
        }
    }
    run.set("group_family_pairings_in_states", paired);
    run.set("name_spellings_read", spellings.len() as u64);
    run.set("name_spellings_accepted", accepted);
    run.set("sites_built_for_user_made_groups_reusing_a_built_in_name", user_made);
    run.set("evaluations", evals);
    run.set("distinct_nontrivial", distinct);
    run.set("exhaustive", true);
    run.assume("the independent table of ITA general positions in oracle.rs is right (self-tested for closure and content)");
    run.finish()
}

// ------------------------------------------------------------------------------------------
// C17

#[derive(Clone, Copy, Debug, PartialEq)]
enum Term {
    X(bool),
    Y(bool),
    /// sign negative?, numerator, denominator (0 = none)
    C(bool, u8, u8),
}

#[derive(Clone, Debug)]
struct Component {
    terms: Vec<Term>,
}

impl Component {
    /// (coefficient of x, coefficient of y, constant)
    fn value(&self) -> (f64, f64, f64) {
        let (mut cx, mut cy, mut c) = (0., 0., 0.);
        for t in self.terms.iter() {
            match *t {
                Term::X(neg) => cx += if neg { -1. } else { 1. },
                Term::Y(neg) => cy += if neg { -1. } else { 1. },
                Term::C(neg, d, e) => {
                    let v = if e == 0 { d as f64 } else { d as f64 / e as f64 };
                    c += if neg { -v } else { v };
                }
            }
        }
        (cx, cy, c)
    }
    /// style: 0 compact, 1 explicit leading '+', 2 spaces around signs, 3 space after sign only
    fn render(&self, style: u8) -> String {
        let mut s = String::new();
        for (i, t) in self.terms.iter().enumerate() {
            let (neg, body) = match *t {
                Term::X(n) => (n, "x".to_string()),
                Term::Y(n) => (n, "y".to_string()),
                Term::C(n, d, 0) => (n, format!("{}", d)),
                Term::C(n, d, e) => (n, format!("{}/{}", d, e)),
            };
            let sign = if neg { "-" } else if i > 0 || style == 1 { "+" } else { "" };
            match style {
                2 if i > 0 => {
                    s.push(' ');
                    s.push_str(sign);
                    s.push(' ');
                }
                3 if !sign.is_empty() => {
                    s.push_str(sign);
                    s.push(' ');
                }
                _ => s.push_str(sign),
            }
            s.push_str(&body);
        }
        s
    }
}

fn all_components(digits: &[u8], denoms: &[u8]) -> Vec<Component> {
    let mut consts: Vec<(u8, u8)> = vec![];
    for &d in digits {
        consts.push((d, 0));
        for &e in denoms {
            consts.push((d, e));
        }
    }
    let mut out = vec![];
    // kinds: 0 = x, 1 = y, 2 = const; all ordered arrangements of non-empty subsets
    let arrangements: Vec<Vec<u8>> = {
        let mut v = vec![];
        for a in 0..3u8 {
            v.push(vec![a]);
            for b in 0..3u8 {
                if b == a {
                    continue;
                }
                v.push(vec![a, b]);
                for c in 0..3u8 {
                    if c == a || c == b {
                        continue;
                    }
                    v.push(vec![a, b, c]);
                }
            }
        }
        v
    };
    for arr in arrangements.iter() {
        let k = arr.len();
        for signs in 0..(1u32 << k) {
            let has_c = arr.contains(&2);
            let cs: Vec<(u8, u8)> = if has_c { consts.clone() } else { vec![(0, 0)] };
            for &(d, e) in cs.iter() {
                let terms = arr
                    .iter()
                    .enumerate()
                    .map(|(i, kind)| {
                        let neg = signs >> i & 1 == 1;
                        match kind {
                            0 => Term::X(neg),
                            1 => Term::Y(neg),
                            _ => Term::C(neg, d, e),
                        }
                    })
                    .collect();
                out.push(Component { terms });
            }
        }
    }
    out
}

fn check_parse(s: &str, first: &Component, second: &Component) -> Result<(), String> {
    let parsed = panic::catch_unwind(|| Transform2::from_operations(s));
    let t = match parsed {
        Err(_) => return Err(format!("panic while parsing {:?}", s)),
        Ok(Err(e)) => return Err(format!("grammatical string {:?} rejected: {}", s, e)),
        Ok(Ok(t)) => t,
    };
    let (ax, ay, ac) = first.value();
    let (bx, by, bc) = second.value();
    for p in [[0., 0.], [1., 0.], [0., 1.], [0.3, -0.7]].iter() {
        let q = t * Point2::new(p[0], p[1]);
        let ex = ax * p[0] + ay * p[1] + ac;
        let ey = bx * p[0] + by * p[1] + bc;
        if !((q.x - ex).abs() <= 1e-15 * (1. + ex.abs()) && (q.y - ey).abs() <= 1e-15 * (1. + ey.abs())) {
            return Err(format!(
                "{:?} maps ({}, {}) to ({}, {}), the expression's value is ({}, {})",
                s, p[0], p[1], q.x, q.y, ex, ey
            ));
        }
    }
    Ok(())
}

fn wrap_op(a: &str, b: &str, style: u8) -> String {
    match style {
        0 => format!("{},{}", a, b),
        1 => format!("{}, {}", a, b),
        2 => format!("({},{})", a, b),
        _ => format!("({}, {})", a, b),
    }
}

pub fn c17(tier: Tier) -> ! {
    let mut run = Run::new("C17", tier, "exploration");
    let prev_hook = panic::take_hook();
    panic::set_hook(Box::new(|_| {}));

    let digits: Vec<u8> = (0..10).collect();
    let denoms: Vec<u8> = (1..10).collect();
    let comps = all_components(&digits, &denoms);
    let partners: Vec<Component> = {
        let t = |v: Vec<Term>| Component { terms: v };
        vec![
            t(vec![Term::X(false)]),
            t(vec![Term::Y(false)]),
            t(vec![Term::X(true)]),
            t(vec![Term::Y(true)]),
            t(vec![Term::Y(false), Term::C(false, 1, 2)]),
            t(vec![Term::C(false, 1, 2), Term::X(true)]),
            t(vec![Term::Y(true), Term::X(false)]),
            t(vec![Term::X(true), Term::Y(true), Term::C(true, 3, 4)]),
            t(vec![Term::C(true, 1, 4), Term::Y(false), Term::X(false)]),
            t(vec![Term::C(false, 0, 0)]),
            t(vec![Term::C(true, 2, 3)]),
            t(vec![Term::X(false), Term::C(false, 1, 2)]),
        ]
    };
    // (a) every component in both positions with each partner, all render styles
    let results = par_map(&comps, |_, c| {
        let mut n = 0u64;
        let mut bad: Vec<(String, String)> = vec![];
        for style in 0..4u8 {
            let cs = c.render(style);
            for (pi, p) in partners.iter().enumerate() {
                let ps = p.render((style + pi as u8) % 4);
                for wstyle in 0..4u8 {
                    let s1 = wrap_op(&cs, &ps, wstyle);
                    n += 1;
                    if let Err(e) = check_parse(&s1, c, p) {
                        if bad.len() < 3 {
                            bad.push((s1.clone(), e));
                        }
                    }
                    let s2 = wrap_op(&ps, &cs, wstyle);
                    n += 1;
                    if let Err(e) = check_parse(&s2, p, c) {
                        if bad.len() < 3 {
                            bad.push((s2.clone(), e));
                        }
                    }
                }
            }
        }
        (n, bad)
    });
    let mut evals = 0u64;
    for (n, bad) in results {
        evals += n;
        for (s, e) in bad {
            run.fail(None, &e, json!({"string": s}));
        }
    }
    run.set("grammar_components", comps.len() as u64);
    run.set("grammar_operations_checked", evals);
    // (b) the full square over a reduced constant set
    let small = all_components(&[0, 1, 2, 3], &[2, 3, 4]);
    let sq = par_map(&small, |_, a| {
        let mut n = 0u64;
        let mut bad: Vec<(String, String)> = vec![];
        let sa = a.render(0);
        for b in small.iter() {
            let s = wrap_op(&sa, &b.render(0), 0);
            n += 1;
            if let Err(e) = check_parse(&s, a, b) {
                if bad.len() < 3 {
                    bad.push((s, e));
                }
            }
        }
        (n, bad)
    });
    let mut sq_evals = 0u64;
    for (n, bad) in sq {
        sq_evals += n;
        for (s, e) in bad {
            run.fail(None, &e, json!({"string": s}));
        }
    }
    run.set("grammar_full_square_checked", sq_evals);
    run.sample(json!({"grammar_example": wrap_op(&comps[comps.len() / 2].render(2), &partners[7].render(0), 3)}));
    run.sample(json!({"grammar_example": wrap_op(&comps[17].render(0), &comps[4000].render(1), 0)}));

    // (c) robustness: every string up to a length over the alphabet, plus unusual characters
    let alphabet: Vec<char> = "xyz-+/*012,() ".chars().collect();
    let maxlen = tier.pick(5usize, 8usize);
    let firsts: Vec<usize> = (0..alphabet.len()).collect();
    let rob = par_map(&firsts, |_, &f0| {
        let mut n = 0u64;
        let mut oks = 0u64;
        let mut errs = 0u64;
        let mut bad: Vec<(String, String)> = vec![];
        let a = alphabet.len();
        // all strings starting with alphabet[f0] of length 1..=maxlen
        for len in 1..=maxlen {
            let rest = len - 1;
            let total = a.pow(rest as u32);
            let mut buf: Vec<char> = vec![alphabet[f0]; len];
            for mut code in 0..total {
                for pos in 0..rest {
                    buf[1 + pos] = alphabet[code % a];
                    code /= a;
                }
                let s: String = buf.iter().collect();
                n += 1;
                match panic::catch_unwind(|| Transform2::from_operations(&s)) {
                    Err(_) => {
                        if bad.len() < 3 {
                            bad.push((s.clone(), format!("panic while parsing {:?}", s)));
                        }
                    }
                    Ok(Ok(_)) => {
                        oks += 1;
                        let inner = s.trim_matches(|c| c == '(' || c == ')');
                        let commas = inner.matches(',').count();
                        if commas == 0 || commas >= 3 {
                            if bad.len() < 3 {
                                bad.push((s.clone(), format!("{:?} accepted although it does not have two components", s)));
                            }
                        }
                    }
                    Ok(Err(_)) => errs += 1,
                }
            }
        }
        (n, oks, errs, bad)
    });
    let (mut rn, mut roks, mut rerrs) = (0u64, 0u64, 0u64);
    if maxlen >= 1 {
        // the empty string
        rn += 1;
        match panic::catch_unwind(|| Transform2::from_operations("")) {
            Err(_) => run.fail(None, "panic while parsing the empty string", json!({"string": ""})),
            Ok(Ok(_)) => run.fail(None, "empty string accepted", json!({"string": ""})),
            Ok(Err(_)) => rerrs += 1,
        }
    }
    for (n, o, e, bad) in rob {
        rn += n;
        roks += o;
        rerrs += e;
        for (s, e) in bad {
            run.fail(None, &e, json!({"string": s}));
        }
    }
    // (components far longer than any table entry: valid characters only)
    for s in ["x+0+0+0+0+0+0+0+1/2,y", "+ + + + + + + + + + + + + + + x + 1/2, y", "xxxxxxxxxxxxxxxxxxxxxxxxxxxxxxxx,y", "x,y-1/2-1/2-1/2-1/2-1/2-1/2-1/2-1/2", "(x+1/2+1/3+1/4+1/5+1/6+1/7+1/8+1/9, -y+1/2+1/3+1/4+1/5+1/6+1/7+1/8+1/9)"].iter() {
        rn += 1;
        match panic::catch_unwind(|| Transform2::from_operations(s)) {
            Err(_) => run.fail(None, &format!("panic while parsing {:?}", s), json!({"string": s})),
            Ok(Ok(_)) => roks += 1,
            Ok(Err(_)) => rerrs += 1,
        }
    }
    let odd = ["é,x", "x,y\u{0}", "x\t,y", "x,y\n", "１,２", "x,y,é", "\u{1F600}", "x,\u{301}y", "9999999999999999999999,1", "1/0,y", "x/0, y/0", "x,y)", "((x,y", "--x,++y", "x y, y x", "1/2/3,x", "*x,/y"];
    for s in odd.iter() {
        rn += 1;
        match panic::catch_unwind(|| Transform2::from_operations(s)) {
            Err(_) => run.fail(None, &format!("panic while parsing {:?}", s), json!({"string": s})),
            Ok(Ok(_)) => roks += 1,
            Ok(Err(_)) => rerrs += 1,
        }
    }
    // a rejected string must leave nothing behind: a good string parsed right after it on the
    // same thread still has its own value
    let x = Component { terms: vec![Term::X(false)] };
    let y = Component { terms: vec![Term::Y(false)] };
    let gx = Component { terms: vec![Term::X(true), Term::C(false, 1, 2)] };
    let bad_then_good = ["(-x, y+0.5)", "x, y+a", "-x+1/2, q", "y, ", "x,y,z", "x", "-y, x; ", "1/2+x, y*", "x, 2é"];
    let mut poison = 0u64;
    for b in bad_then_good.iter() {
        for (gs, c1, c2) in [("x,y", &x, &y), ("-x+1/2, y", &gx, &y), ("y,x", &y, &x)].iter() {
            let _ = panic::catch_unwind(|| Transform2::from_operations(b));
            poison += 1;
            if let Err(e) = check_parse(gs, c1, c2) {
                run.fail(None, &format!("after parsing {:?}: {}", b, e), json!({"first": b, "then": gs}));
            }
            // and a good string parsed twice in a row, from two different allocations
            let again: String = gs.chars().collect();
            if let Err(e) = check_parse(&again, c1, c2) {
                run.fail(None, &format!("second parse of {:?}: {}", gs, e), json!({"string": gs}));
            }
        }
    }
    run.set("rejected_then_good_pairs", poison);
    // different texts of the same length parsed one after the other from one reused buffer (the
    // same address and length every time): each has its own value
    let nx = Component { terms: vec![Term::X(true)] };
    let ny = Component { terms: vec![Term::Y(true)] };
    let mut buf = String::with_capacity(64);
    let mut reused = 0u64;
    for round in 0..3 {
        for (t, c1, c2) in [("x,y", &x, &y), ("y,x", &y, &x), ("x,y", &x, &y), ("-x,y", &nx, &y), ("-y,x", &ny, &x), ("x,-y", &x, &ny), ("y,-x", &y, &nx), ("-x,-y", &nx, &ny), ("-y,-x", &ny, &nx), ("-x,-y", &nx, &ny)].iter() {
            buf.clear();
            buf.push_str(t);
            reused += 1;
            if let Err(e) = check_parse(&buf, c1, c2) {
                run.fail(None, &format!("parsed from a reused buffer (round {}): {}", round, e), json!({"string": t, "engine": "reused-buffer"}));
            }
        }
    }
    run.set("texts_parsed_from_one_reused_buffer", reused);
    panic::set_hook(prev_hook);
    run.set("robustness_strings", rn);
    run.set("robustness_max_len", maxlen as u64);
    run.set("robustness_parsed_ok", roks);
    run.set("robustness_rejected", rerrs);
    run.sample(json!({"robustness_example": "x*2,(y"}));
    run.require(roks > 0 && rerrs > 0, "robustness sweep must see both accepted and rejected strings");
    run.set("evaluations", evals + sq_evals + rn);
    run.set("distinct_nontrivial", evals + sq_evals + roks);
    run.set(
        "rule",
        "grammar: every ordered arrangement of a non-empty subset of {±x, ±y, ±d, ±d/e} (d 0..9, e 1..9) as a component, rendered in 4 spacing/sign styles, in both positions with 12 partner components, 4 comma/parenthesis styles; full square over digits 0..3 / denominators 2..4; robustness: every string up to robustness_max_len over the 14-character alphabet `xyz-+/*012,() ` plus unusual strings. All strings are distinct by construction; non-trivial = grammatical strings (value compared at 4 points) plus arbitrary strings that parsed (component rule checked)",
    );
    run.set("exhaustive", true);
    run.assume("multi-digit numbers, '*', repeated terms and two constants in one component are outside the stated grammar and only checked for absence of panics");
    run.finish()
}
