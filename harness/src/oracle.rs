// Independent oracles. Nothing in this file calls the function it is used to judge.

use std::f64::consts::PI;

pub type P2 = [f64; 2];

#[inline]
pub fn sub(a: P2, b: P2) -> P2 {
    [a[0] - b[0], a[1] - b[1]]
}
#[inline]
pub fn add(a: P2, b: P2) -> P2 {
    [a[0] + b[0], a[1] + b[1]]
}
#[inline]
pub fn dot(a: P2, b: P2) -> f64 {
    a[0] * b[0] + a[1] * b[1]
}
#[inline]
pub fn cross(a: P2, b: P2) -> f64 {
    a[0] * b[1] - a[1] * b[0]
}
#[inline]
pub fn norm(a: P2) -> f64 {
    dot(a, a).sqrt()
}
#[inline]
pub fn scale(a: P2, s: f64) -> P2 {
    [a[0] * s, a[1] * s]
}

/// A 2D affine map p -> m p + t.
#[derive(Clone, Copy, Debug, PartialEq)]
pub struct Aff {
    pub m: [[f64; 2]; 2],
    pub t: P2,
}

impl Aff {
    pub fn identity() -> Aff {
        Aff {
            m: [[1., 0.], [0., 1.]],
            t: [0., 0.],
        }
    }
    pub fn rot_trans(phi: f64, t: P2) -> Aff {
        let (s, c) = phi.sin_cos();
        Aff {
            m: [[c, -s], [s, c]],
            t,
        }
    }
    pub fn translation(t: P2) -> Aff {
        Aff {
            m: [[1., 0.], [0., 1.]],
            t,
        }
    }
    pub fn mirror_x() -> Aff {
        Aff {
            m: [[-1., 0.], [0., 1.]],
            t: [0., 0.],
        }
    }
    #[inline]
    pub fn apply(&self, p: P2) -> P2 {
        [
            self.m[0][0] * p[0] + self.m[0][1] * p[1] + self.t[0],
            self.m[1][0] * p[0] + self.m[1][1] * p[1] + self.t[1],
        ]
    }
    pub fn lin(&self, p: P2) -> P2 {
        [
            self.m[0][0] * p[0] + self.m[0][1] * p[1],
            self.m[1][0] * p[0] + self.m[1][1] * p[1],
        ]
    }
    /// self after other: p -> self(other(p))
    pub fn after(&self, o: &Aff) -> Aff {
        let m = [
            [
                self.m[0][0] * o.m[0][0] + self.m[0][1] * o.m[1][0],
                self.m[0][0] * o.m[0][1] + self.m[0][1] * o.m[1][1],
            ],
            [
                self.m[1][0] * o.m[0][0] + self.m[1][1] * o.m[1][0],
                self.m[1][0] * o.m[0][1] + self.m[1][1] * o.m[1][1],
            ],
        ];
        Aff {
            m,
            t: self.apply(o.t),
        }
    }
    pub fn det(&self) -> f64 {
        self.m[0][0] * self.m[1][1] - self.m[0][1] * self.m[1][0]
    }
    pub fn shifted(&self, d: P2) -> Aff {
        Aff {
            m: self.m,
            t: add(self.t, d),
        }
    }
    /// From the crate's Transform2 (through its public Into<Matrix3>).
    pub fn from_t2(t: &packing::Transform2) -> Aff {
        let m: nalgebra::Matrix3<f64> = (*t).into();
        Aff {
            m: [[m[(0, 0)], m[(0, 1)]], [m[(1, 0)], m[(1, 1)]]],
            t: [m[(0, 2)], m[(1, 2)]],
        }
    }
    /// Column-major 9-element JSON array as written by the crate.
    pub fn from_json9(v: &serde_json::Value) -> Option<Aff> {
        let a = v.as_array()?;
        if a.len() != 9 {
            return None;
        }
        let g = |i: usize| a[i].as_f64();
        Some(Aff {
            m: [[g(0)?, g(3)?], [g(1)?, g(4)?]],
            t: [g(6)?, g(7)?],
        })
    }
    pub fn to_t2(&self) -> packing::Transform2 {
        let m = nalgebra::Matrix3::new(
            self.m[0][0],
            self.m[0][1],
            self.t[0],
            self.m[1][0],
            self.m[1][1],
            self.t[1],
            0.,
            0.,
            1.,
        );
        packing::Transform2::from(m)
    }
}

/// Shape geometry as the oracle sees it.
#[derive(Clone, Debug)]
pub enum Body {
    /// Polygon vertices in boundary order.
    Poly(Vec<P2>),
    /// Union of discs (centre, radius).
    Discs(Vec<(P2, f64)>),
}

impl Body {
    pub fn transformed(&self, a: &Aff) -> Body {
        match self {
            Body::Poly(v) => Body::Poly(v.iter().map(|p| a.apply(*p)).collect()),
            Body::Discs(d) => Body::Discs(d.iter().map(|(p, r)| (a.apply(*p), *r)).collect()),
        }
    }
    pub fn enclosing_radius(&self) -> f64 {
        match self {
            Body::Poly(v) => v.iter().map(|p| norm(*p)).fold(0., f64::max),
            Body::Discs(d) => d.iter().map(|(p, r)| norm(*p) + r).fold(0., f64::max),
        }
    }
    pub fn area(&self) -> f64 {
        match self {
            Body::Poly(v) => shoelace(v).abs(),
            Body::Discs(d) => disc_union_area(d),
        }
    }
    /// All points that define the drawn shape (for point-set comparisons).
    pub fn points(&self) -> Vec<P2> {
        match self {
            Body::Poly(v) => v.clone(),
            Body::Discs(d) => d.iter().map(|(p, _)| *p).collect(),
        }
    }
    pub fn is_convex(&self) -> bool {
        match self {
            Body::Discs(_) => true,
            Body::Poly(v) => {
                let n = v.len();
                let mut sign = 0.;
                for i in 0..n {
                    let a = v[i];
                    let b = v[(i + 1) % n];
                    let c = v[(i + 2) % n];
                    let z = cross(sub(b, a), sub(c, b));
                    if z.abs() < 1e-12 {
                        continue;
                    }
                    if sign == 0. {
                        sign = z.signum();
                    } else if z.signum() != sign {
                        return false;
                    }
                }
                true
            }
        }
    }
}

pub fn shoelace(v: &[P2]) -> f64 {
    let n = v.len();
    let mut s = 0.;
    for i in 0..n {
        s += cross(v[i], v[(i + 1) % n]);
    }
    0.5 * s
}

/// Penetration depth of two bodies: > 0 the interiors overlap (by that translation distance),
/// < 0 they are separated by at least that much. Polygons must be convex.
pub fn depth(a: &Body, b: &Body) -> f64 {
    match (a, b) {
        (Body::Poly(p), Body::Poly(q)) => sat_depth(p, q),
        (Body::Discs(p), Body::Discs(q)) => {
            let mut best = f64::NEG_INFINITY;
            for (c1, r1) in p {
                for (c2, r2) in q {
                    let d = r1 + r2 - norm(sub(*c1, *c2));
                    if d > best {
                        best = d;
                    }
                }
            }
            best
        }
        _ => panic!("mixed bodies"),
    }
}

fn sat_depth(p: &[P2], q: &[P2]) -> f64 {
    let mut best = f64::INFINITY;
    for poly in [p, q].iter() {
        let n = poly.len();
        for i in 0..n {
            let e = sub(poly[(i + 1) % n], poly[i]);
            let l = norm(e);
            if l == 0. {
                continue;
            }
            let ax = [e[1] / l, -e[0] / l];
            let (mut pmin, mut pmax) = (f64::INFINITY, f64::NEG_INFINITY);
            for v in p {
                let d = dot(*v, ax);
                pmin = pmin.min(d);
                pmax = pmax.max(d);
            }
            let (mut qmin, mut qmax) = (f64::INFINITY, f64::NEG_INFINITY);
            for v in q {
                let d = dot(*v, ax);
                qmin = qmin.min(d);
                qmax = qmax.max(d);
            }
            let o = (pmax - qmin).min(qmax - pmin);
            if o < best {
                best = o;
            }
        }
    }
    best
}

/// Exact area of a union of discs by integrating along the exposed boundary arcs (Green).
pub fn disc_union_area(discs: &[(P2, f64)]) -> f64 {
    // drop discs contained in another (keep the first of identical ones)
    let n = discs.len();
    let mut keep = vec![true; n];
    for i in 0..n {
        for j in 0..n {
            if i == j || !keep[j] {
                continue;
            }
            let d = norm(sub(discs[i].0, discs[j].0));
            let (ri, rj) = (discs[i].1, discs[j].1);
            if d + ri <= rj && (ri < rj || d > 0. || j < i) {
                keep[i] = false;
                break;
            }
        }
    }
    let ds: Vec<(P2, f64)> = (0..n).filter(|&i| keep[i]).map(|i| discs[i]).collect();
    let mut area = 0.;
    for (i, (c, r)) in ds.iter().enumerate() {
        // covered angular intervals on circle i
        let mut cov: Vec<(f64, f64)> = vec![];
        for (j, (c2, r2)) in ds.iter().enumerate() {
            if i == j {
                continue;
            }
            let dv = sub(*c2, *c);
            let d = norm(dv);
            // Tangent or barely overlapping discs: the lens area is O(depth^1.5) (< 1e-13 of the
            // disc areas here) while the arc end points computed through acos are unstable there.
            if d >= (r + r2) * (1. - 1e-9) {
                continue;
            }
            // (containment was removed above, so the circles cross)
            let cosa = ((d * d + r * r - r2 * r2) / (2. * d * r)).max(-1.).min(1.);
            let half = cosa.acos();
            let mid = dv[1].atan2(dv[0]);
            let mut lo = mid - half;
            let hi0 = mid + half;
            // normalise lo into [0, 2pi)
            while lo < 0. {
                lo += 2. * PI;
            }
            while lo >= 2. * PI {
                lo -= 2. * PI;
            }
            let hi = lo + (hi0 - (mid - half));
            if hi > 2. * PI {
                cov.push((lo, 2. * PI));
                cov.push((0., hi - 2. * PI));
            } else {
                cov.push((lo, hi));
            }
        }
        cov.sort_by(|a, b| a.partial_cmp(b).unwrap());
        // exposed = complement of the union of covered intervals in [0, 2pi]
        let mut pos = 0.;
        let mut exposed: Vec<(f64, f64)> = vec![];
        for (lo, hi) in cov {
            if lo > pos {
                exposed.push((pos, lo));
            }
            if hi > pos {
                pos = hi;
            }
        }
        if pos < 2. * PI {
            exposed.push((pos, 2. * PI));
        }
        for (t1, t2) in exposed {
            area += 0.5
                * (r * r * (t2 - t1) + c[0] * r * (t2.sin() - t1.sin())
                    - c[1] * r * (t2.cos() - t1.cos()));
        }
    }
    area
}

/// Area of a union of discs by counting raster cells (self-test of the arc integration).
pub fn disc_union_area_raster(discs: &[(P2, f64)], n: usize) -> f64 {
    let (mut x0, mut x1, mut y0, mut y1) = (f64::INFINITY, f64::NEG_INFINITY, f64::INFINITY, f64::NEG_INFINITY);
    for (c, r) in discs {
        x0 = x0.min(c[0] - r);
        x1 = x1.max(c[0] + r);
        y0 = y0.min(c[1] - r);
        y1 = y1.max(c[1] + r);
    }
    let dx = (x1 - x0) / n as f64;
    let dy = (y1 - y0) / n as f64;
    let mut count = 0usize;
    for i in 0..n {
        let x = x0 + (i as f64 + 0.5) * dx;
        for j in 0..n {
            let y = y0 + (j as f64 + 0.5) * dy;
            if discs
                .iter()
                .any(|(c, r)| (x - c[0]) * (x - c[0]) + (y - c[1]) * (y - c[1]) < r * r)
            {
                count += 1;
            }
        }
    }
    count as f64 * dx * dy
}

/// Lattice vectors of a cell from its three parameters.
#[derive(Clone, Copy, Debug)]
pub struct Lattice {
    pub a: P2,
    pub b: P2,
}

impl Lattice {
    pub fn new(length: f64, ratio: f64, angle: f64) -> Lattice {
        let bl = length * ratio;
        Lattice {
            a: [length, 0.],
            b: [bl * angle.cos(), bl * angle.sin()],
        }
    }
    pub fn area(&self) -> f64 {
        cross(self.a, self.b).abs()
    }
    pub fn cart(&self, f: P2) -> P2 {
        [
            f[0] * self.a[0] + f[1] * self.b[0],
            f[0] * self.a[1] + f[1] * self.b[1],
        ]
    }
    pub fn vec(&self, n: i64, m: i64) -> P2 {
        self.cart([n as f64, m as f64])
    }
    /// Fractional coordinates of a Cartesian point.
    pub fn frac(&self, p: P2) -> P2 {
        let det = cross(self.a, self.b);
        [cross(p, self.b) / det, cross(self.a, p) / det]
    }
    /// Index ranges (nmax, mmax) so that every lattice vector of length <= d is covered.
    pub fn ranges(&self, d: f64) -> (i64, i64) {
        let area = self.area();
        let nmax = (d * norm(self.b) / area).floor() as i64 + 1;
        let mmax = (d * norm(self.a) / area).floor() as i64 + 1;
        (nmax, mmax)
    }
}

/// Result of the full-lattice overlap search.
#[derive(Clone, Debug)]
pub struct LatticeOverlap {
    pub depth: f64,
    pub i: usize,
    pub j: usize,
    pub n: i64,
    pub m: i64,
    pub pairs_examined: usize,
    pub close_pairs: usize,
}

/// Deepest overlap between any two distinct images of the placed copies over the whole lattice.
/// `placements` are the Cartesian transforms of the copies in one cell. Returns None if the
/// enumeration would exceed `max_range` cells per axis (cell too small for this oracle).
pub fn lattice_max_depth(
    body: &Body,
    placements: &[Aff],
    lat: &Lattice,
    max_range: i64,
    stop_at: f64,
) -> Option<LatticeOverlap> {
    let r = body.enclosing_radius();
    let placed: Vec<Body> = placements.iter().map(|a| body.transformed(a)).collect();
    let centres: Vec<P2> = placements.iter().map(|a| a.t).collect();
    let mut dmax: f64 = 0.;
    for i in 0..centres.len() {
        for j in 0..centres.len() {
            dmax = dmax.max(norm(sub(centres[i], centres[j])));
        }
    }
    let reach = 2. * r + 1e-6;
    let (nmax, mmax) = lat.ranges(reach + dmax);
    if nmax > max_range || mmax > max_range {
        return None;
    }
    let mut best = LatticeOverlap {
        depth: f64::NEG_INFINITY,
        i: 0,
        j: 0,
        n: 0,
        m: 0,
        pairs_examined: 0,
        close_pairs: 0,
    };
    let kmax = nmax.max(mmax);
    for k in 0..=kmax {
        for n in -k.min(nmax)..=k.min(nmax) {
            for m in -k.min(mmax)..=k.min(mmax) {
                if n.abs().max(m.abs()) != k {
                    continue;
                }
                let l = lat.vec(n, m);
                for i in 0..placed.len() {
                    for j in 0..placed.len() {
                        // each unordered pair of images once: (i,0) with (j,L), i<j for all L,
                        // i==j for L in a half plane, i>j skipped (it is (j,0)-(i,-L)).
                        if j < i {
                            continue;
                        }
                        if i == j && !(n > 0 || (n == 0 && m > 0)) {
                            continue;
                        }
                        best.pairs_examined += 1;
                        let dc = norm(sub(add(centres[j], l), centres[i]));
                        if dc > reach {
                            continue;
                        }
                        best.close_pairs += 1;
                        let moved = placed[j].transformed(&Aff::translation(l));
                        let d = depth(&placed[i], &moved);
                        if d > best.depth {
                            best.depth = d;
                            best.i = i;
                            best.j = j;
                            best.n = n;
                            best.m = m;
                        }
                        if best.depth > stop_at {
                            return Some(best);
                        }
                    }
                }
            }
        }
    }
    Some(best)
}

// ------------------------------------------------------------------------------------------
// Plane groups: independent table of general positions (ITA, standard setting).

#[derive(Clone, Copy, Debug, PartialEq)]
pub struct Op {
    pub w: [[i32; 2]; 2],
    /// translation in halves: (tx/2, ty/2)
    pub t2: [i32; 2],
}

impl Op {
    pub fn apply_frac(&self, p: P2) -> P2 {
        [
            self.w[0][0] as f64 * p[0] + self.w[0][1] as f64 * p[1] + self.t2[0] as f64 / 2.,
            self.w[1][0] as f64 * p[0] + self.w[1][1] as f64 * p[1] + self.t2[1] as f64 / 2.,
        ]
    }
    pub fn det(&self) -> i32 {
        self.w[0][0] * self.w[1][1] - self.w[0][1] * self.w[1][0]
    }
    pub fn compose(&self, o: &Op) -> Op {
        // self after o, translations modulo 1 (in halves: modulo 2)
        let mut w = [[0; 2]; 2];
        for r in 0..2 {
            for c in 0..2 {
                w[r][c] = self.w[r][0] * o.w[0][c] + self.w[r][1] * o.w[1][c];
            }
        }
        let t = [
            (self.w[0][0] * o.t2[0] + self.w[0][1] * o.t2[1] + self.t2[0]).rem_euclid(2),
            (self.w[1][0] * o.t2[0] + self.w[1][1] * o.t2[1] + self.t2[1]).rem_euclid(2),
        ];
        Op { w, t2: t }
    }
    pub fn as_aff(&self) -> Aff {
        Aff {
            m: [
                [self.w[0][0] as f64, self.w[0][1] as f64],
                [self.w[1][0] as f64, self.w[1][1] as f64],
            ],
            t: [self.t2[0] as f64 / 2., self.t2[1] as f64 / 2.],
        }
    }
}

pub const GROUP_NAMES: [&str; 7] = ["p1", "p2", "p1m1", "p1g1", "p2mm", "p2mg", "p2gg"];

const E: [[i32; 2]; 2] = [[1, 0], [0, 1]];
const R2: [[i32; 2]; 2] = [[-1, 0], [0, -1]];
const MX: [[i32; 2]; 2] = [[-1, 0], [0, 1]];
const MY: [[i32; 2]; 2] = [[1, 0], [0, -1]];

/// General positions of the seven supported plane groups (ITA numbers 1, 2, 3, 4, 6, 7, 8).
pub fn ita_ops(name: &str) -> Vec<Op> {
    let op = |w, a, b| Op { w, t2: [a, b] };
    match name {
        "p1" => vec![op(E, 0, 0)],
        "p2" => vec![op(E, 0, 0), op(R2, 0, 0)],
        "p1m1" => vec![op(E, 0, 0), op(MX, 0, 0)],
        "p1g1" => vec![op(E, 0, 0), op(MX, 0, 1)],
        "p2mm" => vec![op(E, 0, 0), op(R2, 0, 0), op(MX, 0, 0), op(MY, 0, 0)],
        "p2mg" => vec![op(E, 0, 0), op(R2, 0, 0), op(MX, 1, 0), op(MY, 1, 0)],
        "p2gg" => vec![op(E, 0, 0), op(R2, 0, 0), op(MX, 1, 1), op(MY, 1, 1)],
        _ => panic!("unknown group {}", name),
    }
}

/// Crystal family of the group: "Monoclinic" (oblique) or "Orthorhombic" (rectangular).
pub fn ita_family(name: &str) -> &'static str {
    match name {
        "p1" | "p2" => "Monoclinic",
        _ => "Orthorhombic",
    }
}

/// (two-fold rotations, mirrors, glides) among the general positions.
pub fn ita_content(name: &str) -> (usize, usize, usize) {
    match name {
        "p1" => (0, 0, 0),
        "p2" => (1, 0, 0),
        "p1m1" => (0, 1, 0),
        "p1g1" => (0, 0, 1),
        "p2mm" => (1, 2, 0),
        "p2mg" => (1, 1, 1),
        "p2gg" => (1, 0, 2),
        _ => panic!("unknown group {}", name),
    }
}

pub fn wallpaper_enum(name: &str) -> packing::wallpaper::WallpaperGroups {
    use packing::wallpaper::WallpaperGroups as W;
    match name {
        "p1" => W::p1,
        "p2" => W::p2,
        "p1m1" => W::p1m1,
        "p1g1" => W::p1g1,
        "p2mm" => W::p2mm,
        "p2mg" => W::p2mg,
        "p2gg" => W::p2gg,
        _ => panic!("unknown group {}", name),
    }
}

/// Wrap into [-1/2, 1/2).
pub fn wrap_half(x: f64) -> f64 {
    let mut y = x - x.round();
    if y >= 0.5 {
        y -= 1.;
    }
    if y < -0.5 {
        y += 1.;
    }
    y
}

/// Distance of x to the nearest integer.
pub fn dist_to_int(x: f64) -> f64 {
    (x - x.round()).abs()
}

// ------------------------------------------------------------------------------------------
// Lennard-Jones closed form.

pub fn lj_closed_form(sigma: f64, eps: f64, cutoff: Option<f64>, r: f64) -> f64 {
    let f = |x: f64| {
        let s6 = (sigma / x).powi(6);
        4. * eps * (s6 * s6 - s6)
    };
    match cutoff {
        None => f(r),
        Some(c) => {
            if r < c {
                f(r) - f(c)
            } else {
                0.
            }
        }
    }
}

pub fn self_test() -> Result<(), String> {
    // disc union vs raster on fixed trimers, including triple overlaps and containment
    let cases: Vec<Vec<(P2, f64)>> = vec![
        vec![([0., 0.], 1.)],
        vec![([0., 0.], 1.), ([1., 0.], 1.)],
        vec![([0., 0.], 1.), ([3., 0.], 1.)],
        vec![([0., -0.577], 1.), ([-0.5, 0.289], 0.7), ([0.5, 0.289], 0.7)],
        vec![([0., -0.5], 1.), ([-0.4, 0.25], 1.), ([0.4, 0.25], 1.)],
        vec![([0., -0.1], 1.), ([-0.2, 0.1], 0.3), ([0.2, 0.1], 0.3)],
        vec![([0., 0.], 1.), ([0., 0.], 0.5), ([0.2, 0.], 0.5)],
        vec![([0., 0.], 1.), ([0., 0.], 1.), ([1.5, 0.], 0.7)],
        vec![([0., -0.333], 1.), ([-0.866, 0.1667], 0.637556), ([0.866, 0.1667], 0.637556)],
        vec![([0., 0.], 1.), ([-1.5, 0.], 0.7), ([1.5, 0.], 0.7)],
    ];
    for c in cases.iter() {
        let a = disc_union_area(c);
        let r = disc_union_area_raster(c, 1500);
        if (a - r).abs() > 2e-3 * r.max(1.) {
            return Err(format!("disc union {:?}: arcs {} raster {}", c, a, r));
        }
    }
    // SAT depth: unit squares
    let sq = vec![[0.5, 0.5], [0.5, -0.5], [-0.5, -0.5], [-0.5, 0.5]];
    let b = Body::Poly(sq);
    let d = depth(&b, &b.transformed(&Aff::translation([0.75, 0.])));
    if (d - 0.25).abs() > 1e-12 {
        return Err(format!("sat depth {}", d));
    }
    let d = depth(&b, &b.transformed(&Aff::translation([1.25, 0.3])));
    if (d + 0.25).abs() > 1e-12 {
        return Err(format!("sat gap {}", d));
    }
    let d = depth(&b, &b.transformed(&Aff::rot_trans(PI / 4., [1.2, 0.])));
    // rotated square reaches 0.7071 towards -x from 1.2: overlap 0.5 + 0.7071 - 1.2
    if (d - (0.5 + 0.5f64.sqrt() - 1.2)).abs() > 1e-12 {
        return Err(format!("sat rotated {}", d));
    }
    // group tables close
    for g in GROUP_NAMES.iter() {
        let ops = ita_ops(g);
        for a in ops.iter() {
            for b in ops.iter() {
                let c = a.compose(b);
                if !ops.iter().any(|o| *o == c) {
                    return Err(format!("oracle table of {} not closed", g));
                }
            }
        }
        let (r, m, gl) = ita_content(g);
        if 1 + r + m + gl != ops.len() {
            return Err(format!("oracle content of {} inconsistent", g));
        }
    }
    // lattice
    let lat = Lattice::new(2., 0.5, PI / 3.);
    if (lat.area() - 2. * 1. * (PI / 3.).sin()).abs() > 1e-12 {
        return Err("lattice area".into());
    }
    let f = lat.frac(lat.cart([0.3, -0.2]));
    if (f[0] - 0.3).abs() > 1e-12 || (f[1] + 0.2).abs() > 1e-12 {
        return Err("lattice frac".into());
    }
    // LJ closed form
    if (lj_closed_form(1., 1., None, 2f64.powf(1. / 6.)) + 1.).abs() > 1e-12 {
        return Err("lj minimum".into());
    }
    Ok(())
}
