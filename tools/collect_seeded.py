#!/usr/bin/env python3
"""Assemble /verif/seeded/<id>-<n>/ from the sub-agents' deliveries (/tmp/wt-<id>/out) and the
evaluation log written by tools/try_mutant.sh (one or more logs; later logs add check results)."""
import json, os, re, shutil, sys, glob

logs = sys.argv[1:] or ['/tmp/eval_agents.log']
res = {}
for log in logs:
    cur = None
    for line in open(log, errors='replace'):
        line = line.rstrip('\n')
        m = re.match(r'=== (C\d+)-(\d+)', line)
        if m:
            cur = (m.group(1), int(m.group(2)))
            res.setdefault(cur, {'results': {}, 'checks': {}, 'what': []})
            continue
        if cur is None:
            continue
        m = re.match(r'RESULT (\w+)=(\w+)', line)
        if m:
            res[cur]['results'][m.group(1)] = (m.group(2) == 'true')
            continue
        m = re.match(r'CHECK (C\d+) (quick|thorough) exit=(\d+)\s*(.*)', line)
        if m:
            res[cur]['checks']['%s:%s' % (m.group(1), m.group(2))] = {'exit': int(m.group(3)), 'note': m.group(4).strip()[:200]}
            continue
        if 'what:' in line and len(res[cur]['what']) < 3:
            res[cur]['what'].append(line.strip()[:250])

for (pid, n), r in sorted(res.items()):
    src = '/tmp/wt-%s/out' % pid
    k = n
    if n >= 15:
        # ninth round (ten properties): /tmp/w9m-<id>/out/mutant{1,2} become <id>-15 and <id>-16
        src = '/tmp/w9m-%s/out' % pid
        k = n - 14
    elif n >= 13:
        # seventh round (ten properties): /tmp/w7m-<id>/out/mutant{1,2} become <id>-13 and <id>-14
        # (rounds seven and eight cover ten properties each, both numbered 13 and 14)
        src = '/tmp/w7m-%s/out' % pid
        if not os.path.exists(src):
            src = '/tmp/w8m-%s/out' % pid
        k = n - 12
    elif n >= 11:
        # sixth round: /tmp/w6m-<id>/out/mutant{1,2} become <id>-11 and <id>-12
        src = '/tmp/w6m-%s/out' % pid
        k = n - 10
    elif n >= 9:
        # fifth round: /tmp/w5m-<id>/out/mutant{1,2} become <id>-9 and <id>-10
        src = '/tmp/w5m-%s/out' % pid
        k = n - 8
    elif n >= 7:
        # fourth round: /tmp/w4m-<id>/out/mutant{1,2} become <id>-7 and <id>-8
        src = '/tmp/w4m-%s/out' % pid
        k = n - 6
    elif n >= 5:
        # third round: /tmp/w3m-<id>/out/mutant{1,2} become <id>-5 and <id>-6
        src = '/tmp/w3m-%s/out' % pid
        k = n - 4
    elif n >= 3:
        # second round of sub-agents: /tmp/w2-<id>/out/mutant{1,2} become <id>-3 and <id>-4
        src = '/tmp/w2-%s/out' % pid
        k = n - 2
    dst = '/verif/seeded/%s-%d' % (pid, n)
    if not os.path.exists(src + '/mutant%d.diff' % k):
        src = dst  # already collected earlier
        if not os.path.exists(dst + '/patch.diff'):
            continue
    os.makedirs(dst, exist_ok=True)
    if src != dst and not os.path.exists(dst + '/patch.diff'):
        shutil.copy(src + '/mutant%d.diff' % k, dst + '/patch.diff')
        shutil.copy(src + '/demo%d.rs' % k, dst + '/demo.rs')
    meta = {}
    try:
        meta = json.load(open(src + ('/meta%d.json' % k if src != dst else '/meta.json')))
    except Exception as e:
        meta = {'note': 'agent meta unreadable: %s' % e}
    if os.path.exists(dst + '/meta.json'):
        try:
            prev = json.load(open(dst + '/meta.json'))
            for k in ('checks_run', 'confirmed', 'first_findings'):
                if k in prev and k not in meta:
                    meta[k] = prev[k]
        except Exception:
            pass
    old_checks = meta.get('checks_run', {})
    old_checks.update(r['checks'])
    caught = sorted(k for k, v in old_checks.items() if v['exit'] == 1)
    meta.update({
        'property': pid,
        'confirmed': r['results'] or meta.get('confirmed', {}),
        'checks_run': old_checks,
        'caught_by': caught,
        'first_findings': r['what'] or meta.get('first_findings', []),
        'how_confirmed': 'tools/try_mutant.sh: demo on the unchanged tree, git apply, baseline suite (cargo nextest, hooks off), demo with the change, ./check <id> quick (thorough if quick is silent), git checkout',
    })
    json.dump(meta, open(dst + '/meta.json', 'w'), indent=1)
    ok = r['results'].get('applies') and r['results'].get('baseline_passes') and r['results'].get('demo_fails_with_change') and r['results'].get('demo_passes_without_change')
    print(pid, n, 'valid' if ok else 'INVALID %s' % r['results'], 'caught by', caught or 'NOTHING')
