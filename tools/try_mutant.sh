#!/bin/bash
# tools/try_mutant.sh <patch.diff> <demo.rs|-> <target-property> [other properties...]
# Applies a candidate property-breaking change to /repo, confirms it compiles and passes the
# baseline suite, confirms the demonstration fails with it and passes without it, runs the given
# checks (quick; thorough for the target if quick stays silent), and restores /repo.
set -u
# checks of modified trees write their evidence to a scratch directory
export PVX_EVIDENCE_DIR=${PVX_EVIDENCE_DIR:-/tmp/pvx-evidence}; mkdir -p "$PVX_EVIDENCE_DIR"
PATCH=$(readlink -f "$1"); DEMO="$2"; [ "$DEMO" != "-" ] && DEMO=$(readlink -f "$DEMO"); shift 2
PROPS="$@"
cd /repo || exit 2
if [ -n "$(git status --porcelain --untracked-files=no)" ]; then echo "REPO NOT CLEAN"; exit 2; fi
restore() { git -C /repo checkout -- . ; sleep 1; git -C /repo diff --name-only HEAD | (cd /repo && xargs -r touch); rm -f /repo/tests/zz_demo.rs; }
trap restore EXIT
res() { echo "RESULT $1=$2"; }
if [ "$DEMO" != "-" ]; then
    cp "$DEMO" /repo/tests/zz_demo.rs
    if cargo nextest run --offline --test zz_demo >/tmp/try_demo_clean.log 2>&1; then res demo_passes_without_change true; else res demo_passes_without_change false; fi
fi
if ! git apply "$PATCH"; then res applies false; exit 1; fi
res applies true
# make sure every build system sees the change
sleep 1; git -C /repo diff --name-only | (cd /repo && xargs -r touch); sleep 1
if cargo nextest run --workspace --no-fail-fast --offline -E 'not binary(zz_demo)' >/tmp/try_base.log 2>&1; then res baseline_passes true; else res baseline_passes false; grep -E "FAIL|error" /tmp/try_base.log | head -5; fi
if [ "$DEMO" != "-" ]; then
    if cargo nextest run --offline --test zz_demo >/tmp/try_demo_mut.log 2>&1; then res demo_fails_with_change false; else res demo_fails_with_change true; fi
fi
rm -f /repo/tests/zz_demo.rs
first=1
for p in $PROPS; do
    out=$(cd /verif && timeout 900 ./check $p quick 2>&1); code=$?
    echo "CHECK $p quick exit=$code $(echo "$out" | grep -E 'violation kinds|MACHINERY' | head -2 | tr '\n' ' ' | cut -c1-300)"
    echo "$out" | grep -m2 "what:" | cut -c1-300
    if [ $first = 1 ] && [ $code = 0 ] && [ -z "${TRY_NO_THOROUGH:-}" ]; then
        out=$(cd /verif && timeout 3000 ./check $p thorough 2>&1); code=$?
        echo "CHECK $p thorough exit=$code $(echo "$out" | grep -E 'violation kinds|MACHINERY' | head -2 | tr '\n' ' ' | cut -c1-300)"
        echo "$out" | grep -m2 "what:" | cut -c1-300
    fi
    first=0
done
