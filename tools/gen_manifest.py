#!/usr/bin/env python3
"""Generate /verif/MANIFEST.json from the table below (single source of truth for the interface)."""
import json, sys

CHECKS = {
 # id: (engine, category, technique, level text, level note, design_ref)
 "C01": ("geo+rsx", "model_checking",
         "exhaustive enumeration of three state lattices (incl. a displacement-directed one that forces far images into contact) judged by a brute-force all-images overlap oracle",
         "Every point of three finite lattices of real states per (7 groups x 11 shapes) - generic grid around the heuristic's thresholds x a geometric length ladder, displacement-directed lattice (site solved so a chosen pair of copies sits at a chosen displacement |v| < 2R modulo the lattice), bound-clamped special positions and the initial site under pure shrinking - goes through the crate's deserialiser and score(); every scored state is judged by a search over all images within 2R (SAT / disc distance, 1e-9). 15 M states quick.",
         "Trusted: SAT depth for convex polygons, disc distance; lattice vectors from the three cell numbers. Exhaustive over the lattices, not over the reals; regression corpus under corpus/C01 is always included.",
         "5/C01"),
 "C03": ("geo", "exploration",
         "exhaustive lattice enumeration of LJ states and of their re-descriptions against an independent lattice sum",
         "Complete product 7 groups x 5 LJ shapes x cell ratio x angle x length ladder x site grid x orientations; each score is compared with an independent sum over every unordered pair of distinct molecule images (to cutoff + extent; uncut: to 60 sigma with an explicit tail bound) and with the score of every equivalent re-description (site shifted by a lattice vector / commuting half lattice vector).",
         "Pair energies are the crate's own molecule-pair energy (symmetrised) so only weights, range and normalisation are judged; the three-shell truncation for cut potentials is a known finding keyed by 'an interacting pair lies beyond the third shell'. Singular states (coinciding particles) only need to be invalid or astronomically bad.",
         "5/C03"),
 "C04": ("geo", "exploration",
         "exhaustive lattice enumeration of constructible states judged by an independent ITA table conjugated into Cartesian space",
         "Complete product 7 groups x 2 state kinds with asymmetric probe shapes x cells of the group's family x site grid incl. bounds x orientations, plus constructor-built states: every operation of the independent table, expressed in Cartesian space with this cell, must be orthogonal and map the set of placed point sets onto itself up to lattice vectors. States reached by optimisation are judged by the same oracle in the thorough tier's chained-stage search.",
         "Trusted: ITA table; point-set comparison at 1e-9 relative.",
         "5/C04"),
 "C08": ("rsx", "model_checking",
         "explicit-state breadth-first search whose transition function is one real optimise_state call (a stage) under scripted draws, deduplicated on parameter bit patterns, invariants checked on every proposal and returned state",
         "BFS from the initial and a dense start state of 7 groups x 7 (quick) / 11 (thorough) shapes incl. LJ: 28 actions per state (every parameter x moves of -1/2, -0.05, +0.05, +1/2 of its range, shrink-and-regrow two-step stages), depth 3 / 5, per-start state cap reported. Every proposal and every returned state must satisfy the declared ranges relative to the stage start, family/group/shape unchanged, returned score finite. Initial states of the whole shape lattice are checked for validity.",
         "Trusted: the serialised state is the state (bit-exact through serde_json::Value). Chains longer than the depth bound are outside the search.",
         "5/C08"),
 "C05": ("mcx", "model_checking",
         "stateless model checking of the real optimiser: exhaustive enumeration of scripted environment histories (random draws + score answers) with bounded deviations",
         "The optimiser's only nondeterminism (three random draws per step through the verif hook, and the score answers of a probe State) is owned by the harness; every history with at most 1 (quick) / 2 (thorough) departures from 4 baseline answer patterns, plus a full product to depth 3, is executed for every configuration of the kt_start = 0 grid (kt_finish x kt_ratio x steps/inner_steps x max_step_size x convergence). A reference model of all consistent accept/reject histories decides monotonicity of accepted scores and returned >= input.",
         "Trusted: rand 0.7.3 word decoding (calibrated at every start), probe landscape consistency. Histories longer than 12 steps / more deviations are outside the bound. Real states are covered through C08's chained-stage search in hill-climb mode.",
         "5/C05"),
 "C06": ("mcx", "model_checking",
         "stateless model checking of the real optimiser against a reference model of admissible current states",
         "Every scripted history (<= 1/2 deviations from 4 baselines, full product to depth 3/4) on probes with 1-3 shared parameters on and off their bounds, across temperatures 0 / finite / 1e300 and multi-loop step layouts. The reference model keeps every state the run can be in; each proposal must differ from one of them in at most one parameter bit-for-bit and the returned state must be one of them.",
         "Trusted: as C05. The reference model is deliberately agnostic about which decision was taken, so acceptance bugs do not raise C06 alarms.",
         "5/C06"),
 "C07": ("mcx", "model_checking",
         "stateless model checking of scripted histories plus exact threshold measurement by replay bisection",
         "Deterministic clauses on every step of every scripted history (<= 2/3 deviations, product to depth 3/4): invalid => rejected, better/equal => accepted, worse at kT = 0 => rejected, worse in the first loop => accepted iff u < exp(-d/kT_start). Quantitative clause: for a 7x6x4x2 grid of (d, kT, step, layout) the acceptance threshold is measured to the last bit by bisecting the scripted uniform draw over 53 replays and compared with exp(-d/kT).",
         "Trusted: uniformity of rand's f64 draw; calibration of word decoding.",
         "5/C07"),
 "C18": ("mcx", "model_checking",
         "exact per-step temperature measurement by replay bisection of the scripted acceptance draw, over a configuration grid",
         "For every configuration of the (kt_start, kt_finish | kt_ratio | neither, steps, inner_steps) grid incl. non-multiples and inner > steps, the temperature governing every single step is measured (kT = -d/ln p, p found by 53-replay bisection) and compared with the schedule of the property: constant inside a loop, one factor between loops, factor = 1 - kt_ratio, last loop within one measured cooling step of kt_finish, zero stays zero, first loop at kt_start.",
         "Trusted: as C07. Measurable range of kT is [1e-13, 1e13].",
         "5/C18"),
 "C19": ("mcx", "model_checking",
         "stateless model checking of scripted rejection histories against the step bound",
         "Rejection histories 0..100 % per loop (4 baselines and every departure of <= 1/2 fields), 1..12 inner loops, 4 step sizes, 3 parameter ranges, extreme and moderate displacement draws, interior starts so clamping cannot mask a move: every proposal differs from an admissible current state in one parameter by at most max_step_size * range / 2.",
         "Trusted: as C05.",
         "5/C19"),
 "C20": ("mcx+cli", "model_checking",
         "exhaustive configuration grid x scripted histories on the real optimiser (step counts by tagged draws, prefix comparison with/without convergence) plus a covering sweep of the real binary's argument grid",
         "Library: complete grid steps {0..8,12} x inner_steps {0..5,1000} x kt_start x convergence {none,-1,0,1e-3,inf} x 3 answer patterns x <=1 deviation: no panic, proposal count in [steps - min(inner,steps), steps], bit-exact prefix relation, early exit only at a loop boundary after six consecutive sub-threshold loops. CLI: covering selection of the argument grid through the release binary: exit 0 with parsable .json/.svg, or non-zero with an error message, never a panic.",
         "Trusted: proposal = score() call preceded by a tagged displacement draw. CLI grid is a covering selection (every zero-valued corner kept), not the full product.",
         "5/C20"),
 "C02": ("geo", "exploration",
         "exhaustive lattice enumeration of shapes x cells x groups against exact area oracles",
         "Every point of a finite lattice of shapes (n-gons, radial polygons, circle, 219 trimers), cells and groups is built as a real state through the crate's deserialiser and its score, Shape::area and Cell2::area are compared with shoelace / exact disc-union / |AxB| oracles (1e-9 relative). Exhaustive over the lattice, not over the reals.",
         "Trusted: shoelace and boundary-arc disc-union area (self-tested against a raster at start-up). The known trimer-area defect is keyed by an input predicate in known_findings.json; any other mismatch is a violation.",
         "5/C02"),
 "C12": ("geo", "exploration",
         "exhaustive lattice enumeration of relative placements incl. exactly aligned ones against a separating-axis / disc-distance oracle",
         "Every placement of a finite lattice (16 convex shapes x 8 rotations x mirror x a Cartesian grid plus the aligned set: shared vertices, vertices on edges, collinear edges with and without gap, touching discs, each shifted by +-0.5e-9/2e-9) is evaluated with both argument orders and after 5 common motions through the real Intersect::intersects and compared with the oracle outside the 1e-9 band.",
         "Trusted: SAT penetration depth for convex polygons, disc distance. Inside the +-1e-9 band any answer is accepted.",
         "5/C12"),
 "C13": ("geo", "exploration",
         "exhaustive lattice enumeration of (sigma, epsilon, cutoff, r, direction, motion) against the closed-form 12-6 law",
         "Every point of the (sigma, epsilon, cutoff, distance, direction, rigid motion) lattice incl. r = cutoff +- ulp and the minimum is evaluated through the real LJ2::energy / LJShape2::energy and compared with the closed form; unlike pairs are checked for symmetry and invariance in both argument orders; molecule energy against the sum over particle pairs.",
         "Trusted: closed-form law in oracle.rs. For unlike particles no mixing rule is prescribed by the property; only symmetry, invariance and zero beyond both cutoffs are required.",
         "5/C13"),
 "C14": ("geo", "exploration",
         "exhaustive lattice enumeration of cells x points x placements x shells against closed-form lattice vectors",
         "Complete product of cell parameters (incl. obtuse angles and all four family tags), fractional points, rotated/mirrored placements, shell counts 0..4 and both zero flags through Cell2's public methods, compared with xA+yB, the multiset {T+nA+mB} and |AxB|.",
         "Trusted: the three-line closed form of A and B in oracle.rs.",
         "5/C14"),
 "C15": ("geo", "exploration",
         "exhaustive lattice enumeration of site coordinates incl. +-1/2, +-ulp, -0.0, subnormal-scale and out-of-range values against an independent operation table",
         "For all 7 groups and every pair of coordinate values from a list built around the wrap's edge cases, times 7 orientations, the placements of a real state are matched one-to-one with the independent ITA operations (position mod 1, linear part, half-open cell) and compared with 6 lattice/2pi-shifted re-descriptions.",
         "Trusted: ITA table in oracle.rs.",
         "5/C15"),
 "C16": ("sym", "exploration",
         "exhaustive enumeration of the finite group tables against an independent ITA table",
         "Complete enumeration: all 7 groups, every operation, every ordered pair and inverse, every operation conjugated into a grid of cells of its family, compared with an independent table of ITA general positions. The space is finite, so this is exhaustive in the literal sense.",
         "Trusted: the hard-coded ITA table in harness/src/oracle.rs (self-tested for closure/content at start-up).",
         "5/C16"),
 "C17": ("sym", "exploration",
         "exhaustive enumeration of the operation-string grammar and of all short strings",
         "Every string of the stated grammar with single-digit constants (all term orders, signs, 4 spacing styles, both component positions, parentheses) is parsed by the real parser and compared with an independent evaluator at 4 points; every string up to length 5 (quick) / 7 (thorough) over a 14-character alphabet is parsed under catch_unwind.",
         "Trusted: the structural evaluator in sym.rs. Multi-digit constants, '*', repeated terms are outside the stated grammar.",
         "5/C17"),
}

NOT_YET = {
}

def main():
    props = [json.loads(l) for l in open('/verif/properties.jsonl')]
    checks = []
    na = []
    for p in props:
        pid = p["id"]
        if pid in CHECKS:
            eng, cat, tech, text, note, ref = CHECKS[pid]
            checks.append({
                "property_id": pid,
                "quick_cmd": f"./check {pid} quick",
                "thorough_cmd": f"./check {pid} thorough",
                "evidence_file": f"/verif/evidence/{pid}.json",
                "replay_cmd_template": f"./check {pid} --replay {{path}}",
                "engine": eng,
                "level_claimed": {"category": cat, "text": text, "design_ref": f"DESIGN.md section {ref}"},
                "level_note": note,
                "technique": tech,
            })
        else:
            na.append({"property_id": pid, "reason": NOT_YET.get(pid, "check not built yet in this session (planned in DESIGN.md section 5); not claimed until it runs")})
    m = {
        "version": 1,
        "setup_cmd": "./check build",
        "hooks": {
            "guard": "cargo feature `verif` of the packing crate (default off)",
            "enable": "the harness crate /verif/harness depends on packing with features=[\"verif\"]; ./check rebuilds it from /repo's working tree on every invocation",
            "baseline_off_cmd": "cd /repo && cargo nextest run --workspace --no-fail-fast --offline",
            "source_commits": ["3d88488"],
            "add_only": True,
        },
        "engines": [
            {"name": "rsx", "path": "harness/src/rsx.rs", "serves_properties": ["C08", "C01", "C04", "C05"], "kind_free_text": "explicit-state BFS over real crystal states; transition = one real optimiser stage under a scripted generator; observer wrapper sees every score() call"},
            {"name": "geo-states", "path": "harness/src/geo2.rs", "serves_properties": ["C01", "C03", "C04"], "kind_free_text": "exhaustive enumeration of state lattices (generic, displacement-directed, special positions) with brute-force lattice oracles"},
            {"name": "mcx", "path": "harness/src/mcx.rs, harness/src/mc_props.rs", "serves_properties": ["C05", "C06", "C07", "C18", "C19", "C20"], "kind_free_text": "stateless model checker for the real MCOptimiser: the three random draws per step are scripted through the crate's verif hook and score() answers through a probe State; enumerates all histories within a deviation bound, measures acceptance thresholds by replay bisection"},
            {"name": "cli", "path": "harness/src/cli.rs", "serves_properties": ["C20"], "kind_free_text": "real release binary over an argument grid; in-process analyse_state via include! of /repo/src/main.rs"},
            {"name": "geo", "path": "harness/src/geo1.rs", "serves_properties": ["C02", "C12", "C13", "C14", "C15"], "kind_free_text": "exhaustive enumeration of finite input lattices built from the code's thresholds, bounds and exact alignments, judged by independent closed-form oracles"},
            {"name": "sym", "path": "harness/src/sym.rs", "serves_properties": ["C16", "C17"], "kind_free_text": "complete enumeration of finite tables and of a string grammar against independent evaluators"},
        ],
        "checks": checks,
        "not_applicable": na,
        "notes": "All checks are bounded exhaustive explorations of the real code (see DESIGN.md). Exit 2 from a check is a machinery error, never a verdict.",
    }
    json.dump(m, open('/verif/MANIFEST.json', 'w'), indent=1)
    print("checks:", [c["property_id"] for c in checks], "not claimed:", [n["property_id"] for n in na])

main()
