#!/usr/bin/env python3
"""Generate /verif/MANIFEST.json from the table below (single source of truth for the interface)."""
import json, sys

CHECKS = {
 # id: (engine, category, technique, level text, level note, design_ref)
 "C09": ("ilv", "model_checking",
         "stateless exploration of all interleavings (preemption-bounded, CHESS-style prefix replay) of real optimiser replicas under a cooperative scheduler, plus exhaustive reduction trees and 1..16-thread runs",
         "k = 2 or 3 replicas run the real optimiser on clones of one common state in OS threads; a baton parks every replica at every score() call (between a proposal being written and its acceptance/roll-back) and every schedule with at most the stated preemptions (all schedules for the 2-replica plans) is executed. Oracle: each replica's JSON equals its solo run bit for bit, the common original never changes, one outcome per plan. Repeated solo runs per seed on fresh threads must agree, and a result (and its score) must not depend on what the same thread optimised before. All order-preserving binary reduction trees over 6 real results with ties select the sequential maximum; the real analyse_state (in-process, rayon pools 1..16, twice) and the real binary (RAYON_NUM_THREADS, twice) give byte-identical files.",
         "rayon's scheduler itself is not driven (compositional argument, see evidence assumptions). Data races that a cooperative scheduler cannot show are outside the deciding sweep; the thorough tier adds a free-running pass of the same bodies under Miri's race detector (with a deliberately racy self-test) as corroborating evidence. loom/shuttle see no scheduling point in this crate (no sync primitive).",
         "5/C09"),
 "C10": ("cli", "exploration",
         "exhaustive product of CLI arguments through the real binary, judged on the written files",
         "Complete product 7 groups x 6 shape subcommands x 2 potentials x replications 1..3/1..5 x step settings (incl. a 2000-step setting in which the last stage reorders replicas) through the release binary built from /repo: label, family, shape (library constructor), symmetry list (independent table), copy count, logged score = score of the file, score monotone in the number of replications.",
         "Trusted: the file is read back through the crate's deserialiser for the score (1e-9 relative: the log prints the score, the file is read back).",
         "5/C10"),
 "C11": ("geo+cli", "exploration",
         "exhaustive enumeration of an f64 bit-pattern lattice in every parameter slot plus structure and SVG comparison",
         "Every special double (all/every 8th exponent x 7 mantissa patterns, subnormals, decimal fractions) in each of six parameter slots of 4 states, and constructor-built / optimised / awkward-number structures for 7 groups x 11 shapes: to_string -> from_str -> identical text, score and placements, differences classified leaf by leaf. Leaf perturbation: every scalar leaf of 4 documents set to a value no constructor produces must survive read -> write -> read; structures with non-default component fields built through the Rust API. SVG: every <use> matrix parsed with a correctly rounded parser and compared as a multiset with the copies' Cartesian transforms and their 8 nearest images; 9 cell outlines; the binary's files.",
         "The float-parse defect of the JSON dependency was repaired (fb7bb0e, float_roundtrip); the leaf-by-leaf classification stays so that a regression is reported under its own name.",
         "5/C11"),
 "C01": ("geo+rsx", "model_checking",
         "exhaustive enumeration of three state lattices (incl. a displacement-directed one that forces far images into contact) judged by a brute-force all-images overlap oracle",
         "Every point of three finite lattices of real states per (7 groups x 13 shapes incl. small-armed trimers) - generic grid around the heuristic's thresholds x a geometric length ladder, displacement-directed lattice (site solved so a chosen pair of copies sits at a chosen displacement |v| < 2R modulo the lattice), bound-clamped special positions and the initial site under pure shrinking - goes through the crate's deserialiser and score(); every scored state is judged by a search over all images within 2R (SAT / disc distance, 1e-9). 15 M states quick.",
         "Trusted: SAT depth for convex polygons, disc distance; lattice vectors from the three cell numbers. Exhaustive over the lattices, not over the reals; regression corpus under corpus/C01 is always included.",
         "5/C01"),
 "C03": ("geo", "exploration",
         "exhaustive lattice enumeration of LJ states and of their re-descriptions against an independent lattice sum",
         "Complete product 7 groups x 5 LJ shapes x cell ratio x angle x length ladder x site grid x orientations; plus states with two occupied sites; each score is compared with an independent sum over every unordered pair of distinct molecule images (to cutoff + extent; uncut: to 60 sigma with an explicit tail bound) and with the score of every equivalent re-description (site shifted by a lattice vector / commuting half lattice vector); the states' own ordering must follow the score across zero.",
         "Pair energies are the crate's own molecule-pair energy (symmetrised) so only weights, range and normalisation are judged; the three-shell truncation for cut potentials was repaired (05b5321); its predicate stays in the code so a regression is reported. Singular states (coinciding particles) only need to be invalid or astronomically bad.",
         "5/C03"),
 "C04": ("geo+rsx", "model_checking",
         "exhaustive lattice enumeration of constructible states plus explicit-state BFS over optimiser-reachable states, judged by an independent ITA table conjugated into Cartesian space",
         "Complete product 7 groups x 2 state kinds with asymmetric probe shapes x cells of the group's family x site grid incl. bounds x orientations, plus constructor-built states: every operation of the independent table, expressed in Cartesian space with this cell, must be orthogonal and map the set of placed point sets onto itself up to lattice vectors. States reached by optimisation (angle/ratio drift) are judged by the same oracle in a breadth-first search whose transition is one real optimiser stage under scripted draws (depth 3/5 from the initial and a dense state of every group x shape).",
         "Trusted: ITA table; point-set comparison at 1e-9 relative.",
         "5/C04"),
 "C08": ("rsx", "model_checking",
         "explicit-state breadth-first search whose transition function is one real optimise_state call (a stage) under scripted draws, deduplicated on parameter bit patterns, invariants checked on every proposal and returned state",
         "BFS from the initial and a dense start state of 7 groups x 7 (quick) / 11 (thorough) shapes incl. LJ: 28 actions per state (every parameter x moves of -1/2, -0.05, +0.05, +1/2 of its range, shrink-and-regrow two-step stages), depth 3 / 5, per-start state cap reported. Every proposal and every returned state must satisfy the declared ranges relative to the stage start, family/group/shape unchanged, returned score finite. Initial states of the whole shape lattice are checked for validity.",
         "Trusted: the serialised state is the state (bit-exact through serde_json::Value). Chains longer than the depth bound are outside the search.",
         "5/C08"),
 "C05": ("mcx", "model_checking",
         "stateless model checking of the real optimiser: exhaustive enumeration of scripted environment histories (random draws + score answers) with bounded deviations",
         "The optimiser's only nondeterminism (three random draws per step through the verif hook, and the score answers of a probe State) is owned by the harness; every history with at most 1 (quick) / 2 (thorough) departures from 4 baseline answer patterns, plus a full product to depth 3, is executed for every configuration of the kt_start = 0 grid (kt_finish x kt_ratio incl. ratios above one x steps/inner_steps x max_step_size x convergence), on probes starting inside, on and outside their ranges, plus a full product over an absolute score ladder. A reference model of all consistent accept/reject histories decides monotonicity of accepted scores and returned >= input.",
         "Trusted: rand 0.7.3 word decoding (calibrated at every start), probe landscape consistency. Histories longer than 12 steps / more deviations are outside the bound. Real states are covered through C08's chained-stage search in hill-climb mode.",
         "5/C05"),
 "C06": ("mcx", "model_checking",
         "stateless model checking of the real optimiser against a reference model of admissible current states",
         "Every scripted history (<= 1/2 deviations from 4 baselines, full product to depth 3/4) on probes with 1-3 shared parameters starting inside, on and outside their bounds, against a consistent landscape and against an inconsistent call-by-call score function, across temperatures 0 / finite / 1e300 and multi-loop step layouts. The reference model keeps every state the run can be in; each proposal must differ from one of them in at most one parameter bit-for-bit and the returned state must be one of them.",
         "Trusted: as C05. The reference model is deliberately agnostic about which decision was taken, so acceptance bugs do not raise C06 alarms.",
         "5/C06"),
 "C07": ("mcx", "model_checking",
         "stateless model checking of scripted histories plus exact threshold measurement by replay bisection",
         "Deterministic clauses on every step of every scripted history (<= 2/3 deviations, product to depth 3/4, a product over an absolute score ladder that puts proposals between the current and an earlier higher score, consistent and inconsistent score functions): invalid => rejected, better/equal => accepted, worse at kT = 0 => rejected, worse in the first loop => accepted iff u < exp(-d/kT_start). Quantitative clause: for a 7x6x4x2 grid of (d, kT, step, layout) and for kT down to 1e-12 with drops of the same order the acceptance threshold is measured to the last bit by bisecting the scripted uniform draw over 53 replays and compared with exp(-d/kT).",
         "Trusted: uniformity of rand's f64 draw; calibration of word decoding.",
         "5/C07"),
 "C18": ("mcx", "model_checking",
         "exact per-step temperature measurement by replay bisection of the scripted acceptance draw, over a configuration grid",
         "For every configuration of the (kt_start, kt_finish | kt_ratio | neither, steps, inner_steps) grid incl. non-multiples and inner > steps, the temperature governing every single step is measured twice - after a history of accepted improvements and after a history of rejected proposals - (kT = -d/ln p, p found by 53-replay bisection) and compared with the schedule of the property: constant inside a loop, one factor between loops, factor = 1 - kt_ratio, last loop within one measured cooling step of kt_finish, zero stays zero, first loop at kt_start.",
         "Trusted: as C07. Measurable range of kT is [1e-13, 1e13].",
         "5/C18"),
 "C19": ("mcx", "model_checking",
         "stateless model checking of scripted rejection histories against the step bound",
         "Rejection histories 0..100 % per loop (4 baselines and every departure of <= 1/2 fields), 1..12 inner loops, 6 step sizes from 1e-6 to 1, 3 parameter ranges, extreme and moderate displacement draws, interior starts so clamping cannot mask a move: every proposal differs from an admissible current state in one parameter by at most max_step_size * range / 2.",
         "Trusted: as C05.",
         "5/C19"),
 "C20": ("mcx+cli", "model_checking",
         "exhaustive configuration grid x scripted histories on the real optimiser (step counts by tagged draws, prefix comparison with/without convergence) plus a covering sweep of the real binary's argument grid",
         "Library: complete grid steps {0..8,12} x inner_steps {0..5,1000} x kt_start x convergence {none,-1,0,1e-3,inf} x 3 answer patterns x <=1 deviation: no panic, proposal count in [steps - min(inner,steps), steps], bit-exact prefix relation, early exit only at a loop boundary after six consecutive sub-threshold loops. CLI: covering selection of the argument grid through the release binary: exit 0 with parsable .json/.svg, or non-zero with an error message, never a panic.",
         "Trusted: proposal = score() call preceded by a tagged displacement draw. CLI grid is a covering selection (every zero-valued corner kept), not the full product.",
         "5/C20"),
 "C02": ("geo", "exploration",
         "exhaustive lattice enumeration of shapes x cells x groups against exact area oracles",
         "Every point of a finite lattice of shapes (n-gons, radial polygons, circle, 219 trimers), cells and groups is built as a real state through the crate's deserialiser and its score, Shape::area and Cell2::area are compared with shoelace / exact disc-union / |AxB| oracles (1e-8 relative); the states' own ordering is compared with their densities across groups and cell sizes. Exhaustive over the lattice, not over the reals.",
         "Trusted: shoelace and boundary-arc disc-union area (self-tested against a raster at start-up). A subset of the trimers is additionally compared with a raster count (independent of the arc-integration idea the oracle and the repaired crate share).",
         "5/C02"),
 "C12": ("geo", "exploration",
         "exhaustive lattice enumeration of relative placements incl. exactly aligned ones against a separating-axis / disc-distance oracle",
         "Every placement of a finite lattice (16 convex shapes x 8 rotations x mirror x a Cartesian grid plus the aligned set: shared vertices, vertices on edges, collinear edges with and without gap, touching discs, each shifted by +-0.5e-9/2e-9) is evaluated with both argument orders and after 5 common motions through the real Intersect::intersects and compared with the oracle outside the 1e-9 band.",
         "Trusted: SAT penetration depth for convex polygons, disc distance. Inside the +-1e-9 band any answer is accepted.",
         "5/C12"),
 "C13": ("geo", "exploration",
         "exhaustive lattice enumeration of (sigma, epsilon, cutoff, r, direction, motion) against the closed-form 12-6 law",
         "Every point of the (sigma, epsilon, cutoff, distance, direction, rigid motion) lattice incl. r = cutoff +- ulp and the minimum is evaluated through the real LJ2::energy / LJShape2::energy and compared with the closed form; unlike pairs are checked for symmetry and invariance in both argument orders; molecule energy against the sum over particle pairs, for copies of one molecule and for every ordered pair of 8 different molecules.",
         "Trusted: closed-form law in oracle.rs. For unlike particles no mixing rule is prescribed by the property; only symmetry, invariance and zero beyond both cutoffs are required.",
         "5/C13"),
 "C14": ("geo", "exploration",
         "exhaustive lattice enumeration of cells x points x placements x shells against closed-form lattice vectors",
         "Complete product of cell parameters (incl. obtuse angles and all four family tags), fractional points, rotated/mirrored placements, shell counts 0..4 (5, 7, 12 on a sub-grid) and both zero flags through Cell2's public methods, compared with xA+yB, the multiset {T+nA+mB} and |AxB|.",
         "Trusted: the three-line closed form of A and B in oracle.rs.",
         "5/C14"),
 "C15": ("geo", "exploration",
         "exhaustive lattice enumeration of site coordinates incl. +-1/2, +-ulp, -0.0, subnormal-scale and out-of-range values against an independent operation table",
         "For all 7 groups and every pair of coordinate values from a list built around the wrap's edge cases, times 7 orientations, the placements of a real state are matched one-to-one with the independent ITA operations (position mod 1, linear part, half-open cell) and compared with 6 lattice/2pi-shifted re-descriptions; a live object is compared bit for bit with a freshly read one after each of 17 single-parameter edits.",
         "Trusted: ITA table in oracle.rs.",
         "5/C15"),
 "C16": ("sym", "exploration",
         "exhaustive enumeration of the finite group tables against an independent ITA table",
         "Complete enumeration: all 7 groups, every operation, every ordered pair and inverse, every operation conjugated into a grid of cells of its family, compared with an independent table of ITA general positions. The space is finite, so this is exhaustive in the literal sense.",
         "Trusted: the hard-coded ITA table in harness/src/oracle.rs (self-tested for closure/content at start-up).",
         "5/C16"),
 "C17": ("sym", "exploration",
         "exhaustive enumeration of the operation-string grammar and of all short strings",
         "Every string of the stated grammar with single-digit constants (all term orders, signs, 4 spacing styles, both component positions, parentheses) is parsed by the real parser and compared with an independent evaluator at 4 points; every string up to length 5 (quick) / 7 (thorough) over a 14-character alphabet is parsed under catch_unwind.",
         "Trusted: the structural evaluator in sym.rs. Multi-digit constants, '*', repeated terms are outside the stated grammar.",
         "5/C17"),
}

NOT_YET = {
}

# coverage added after the third round of seeded changes (appended to the level text)
EXTRA = {
 "C01": "Added: obtuse cell angles in every lattice; depth-2 thread histories (every ordered pair of 156 edge-of-validity states of all shapes read and scored one after the other on a fresh thread must score as on a thread of its own). Two occupied general sites (second site across a cell face and at generic offsets) as a fourth lattice. Sites near the middle of the cell on a fine ladder of cell sizes (unshifted and stored several cells away).",
 "C02": "Added: every ordered pair of the ~340 shapes scored one after the other on a fresh thread (same component count and enclosing radius included) must score as alone. Two-site states of unequal multiplicity in both orders; near-tied densities through cmp() and max(). A site record that claims a two-fold axis and a mirror (the copies counted are the copies placed). Side ratio 1.6, sites on symmetry elements, skewed cells in the ordering pool, a shape replaced in place after construction. Round ten: every in-place replacement of a state's shape runs in three histories (never scored; scored, replaced, scored again; scored, copied, replaced in the copy).",
 "C03": "Added: molecules whose particles have a well depth other than 1 (alone and next to a unit particle); like-particle pair energies of the oracle in closed form; obtuse cells and the re-descriptions of a p1/p2 crystal in the cells (A, B-A) and (A, B+A); every third state re-scored after decoy states that differ in one particle parameter. A wide trimer whose sigma exceeds its cutoff. The oracle places the particles of the document itself; site shifts by several lattice vectors. Known finding (open): cut potentials in cells that need more than the sixteen shells the crate sums at most. Near-right cell angles; contacts through the cell diagonal in large oblique cells.",
 "C04": "Added: obtuse cells; every ordered pair of groups placed one after the other with bit-identical numbers on a fresh thread. The point sets the crate's own shape transform places (asymmetric hard trimer) are judged as well. Two-site documents (site of multiplicity one first or second, two general sites). A shuffled outline judged with corners and line midpoints.",
 "C05": "Added: configurations reached through used builders (decoy values first), and all 5040 orders of the seven setter calls for a selection of configurations (orders that behave unlike the parsed configuration are judged in full). kt_start = -0.0, infinite and NaN ratios; proposals worse by 1..1000 ulps against the smallest acceptance draw.",
 "C06": "Added: as C05 for builder histories; runs with a convergence threshold, whose early exit must hand back what the same proposals hand back as a complete run. Starts three ulps inside the lower limits, max_step_size 2e-16, jammed loops of 550..1050 steps; a proposal without a score is a known rejection. Probes that hand out two handles for one shared parameter. Inverted limits, small values of both signs, a 300-parameter state; real runs from sites stored outside the cell.",
 "C07": "Added: as C05 for builder histories; threshold measurements in later loops of cooling runs with and without a convergence threshold. kT = inf; thresholds measured at d/kT = 11..34 with a relative tolerance. kT = -1 (only the clauses that hold whatever kT is). Starts outside the ranges, zero cooling factors, kT = -1 and kt_ratio = -inf, minus-infinity scores.",
 "C08": "Added: moves of several whole ranges (max_step_size 6) on site parameters and the cell length (35 actions per state). Start states also take every action at kT = -1 and 24-step one-directional drifts of every parameter. Stages whose step count is not a multiple of inner_steps; a displacement draw beyond the script is an extreme move. An asymmetric polygon among the start shapes; hexagonal and square cells through the API; runs from jammed states with a threshold.",
 "C09": "Added: chains of near-tied scores through every reduction tree; a three-site state with three different Wyckoff letters run repeatedly. Shared-outfile command pairs; optimised states cloned twice serialise to the same bytes and optimise identically. One built optimiser used twice against a fresh one; a 10000-step tiling run under 1, 4, 16 threads. A copy of the very object an optimisation handed back; 32 replicas with a hot main stage.",
 "C10": "Added: every ordered pair of five commands sharing one --outfile (what the second leaves is what it writes to a fresh name). The private pipeline in-process on a recording state (replicas within 1e-6..1e-13 of each other: the written one is the best); runs with a --start-config of another structure. Replica counts 1..250 compared in-process; every replica evaluated as often as the others; the written trimer judged on its numbers.",
 "C11": "Added: doubles that single precision holds exactly but that are not short decimals. Shared-outfile command pairs. p3, p3m1 and p4 handed over as operation strings through the public API. Huge magnitudes; three-site structures; 11-, 12-, 17-gons and unusual site operations through the API; the read-back object compared field for field.",
 "C12": "Added: mirrors in the diagonals (linear part with exactly zero diagonal) as relative and common motions; every ordered pair of shapes answered one after the other on a fresh thread. A common translation by (131072, 131072). Degenerate trimers (coinciding outer discs, concentric discs, outer discs containing the centre). The exact mirror in the x axis; placements built through the (angle, position) constructor next to the axes. Round ten: every shape also answers a placement lattice after a round trip through its JSON text (the bare shape read back and then placed; the two placed copies read back), judged by the exact-geometry oracle at depths of at least 1e-6.",
 "C13": "Added: every ordered pair of like-particle kinds (the second judged right after the first was evaluated); unlike pairs re-evaluated in two other orders, bit for bit. Molecule pairs moved together by (65536, -65536). Molecules of 5, 9, 11 particles also against copies of themselves; a continuity scan of unlike pairs. Round ten: every common motion of the like-pair product is applied through both operators (LJ2 * Transform2 and Transform2 * LJ2, by reference and by value); the moved particles agree field for field.",
 "C14": "Added: side ratios above one, angles within 1e-9..1e-3 of a right angle and obtuse ones; every ordered pair of 36 cells computed one after the other on a fresh thread. Cell angles 1e-5 and pi - 2e-5.",
 "C15": "Added: operation lists the crate does not ship (p4, p3m1, offset glide); every ordered pair of groups placing the same site one after the other on a fresh thread. Orientations within 1e-6 of the axes; operation lists with another operation than the identity first. Coordinates just below the upper edge; twelve-operation lists; lists read across an edit and consumed in five ways; groups given as strings with quarter translations.",
 "C16": "Added: three passes over the table in two orders on one thread; every group built right after one of 19 valid or rejected operation strings went through the parser on a fresh thread. One pass with every log statement switched on; all upper/lower-case spellings and short symbols through the enum's own FromStr. The group-family pairing as a state carries it (built, written, read back, written again). The pairing check covers copies and compares the operations a written, re-read or copied state carries. Round ten: the seven built-in names asked for on a fresh thread that first built sites for user-made groups reusing each built-in name with another group's table, and a fourth pass on the main thread after the same.",
 "C17": "Added: rejected-then-good pairs, the same text parsed twice, different texts parsed from one reused buffer. Long valid operation strings.",
 "C18": "Added: builder histories and all 5040 setter orders for a selection of schedules; schedules under a convergence threshold that the run stays below for fewer than six loops. The command line pipeline in-process on a recording state: the state moves iff a stage runs at the requested temperature. Builders handed on as copies. Round ten: a starting temperature of -0.0 in the configuration product, through the argument parser and the setters.",
 "C19": "Added: parameters on and next to their bounds; builder histories and setter orders. Every proposal of a chained-stage search over real hard and LJ states against the declared ranges; convergence configurations. Bounce scripts off a limit against a call-by-call score function; moves are judged over the histories that obey the deterministic acceptance clauses. max_step_size 0.",
 "C20": "Added: builder histories; probe parameters that start outside their range or whose lower limit lies above the upper one (cell of tiny shapes). The library grid a second time with every log statement switched on, -v/-vv in the command line grid; probes next to their limits; the convergence exit is also required (six loops below the threshold end the run, thresholds <= 0 included). max_step_size 0; odd output locations and settings at zero and beyond the usual in the command line sweep. NaN thresholds, thresholds below the spacing of the score, 2^62..2^64-1 steps with an infinite threshold.",
}

def main():
    props = [json.loads(l) for l in open('/verif/properties.jsonl')]
    checks = []
    na = []
    for p in props:
        pid = p["id"]
        if pid in CHECKS:
            eng, cat, tech, text, note, ref = CHECKS[pid]
            if pid in EXTRA:
                text = text + " " + EXTRA[pid]
            checks.append({
                "property_id": pid,
                "quick_cmd": f"./check {pid} quick",
                "thorough_cmd": f"./check {pid} thorough",
                "evidence_file": f"/verif/evidence/{pid}.json",
                "replay_cmd_template": f"./check {pid} --replay {{path}}",
                "engine": eng,
                "level_claimed": {"category": cat, "text": text, "design_ref": f"DESIGN.md section {ref}"},
                "level_note": note,
                "technique": tech,
            })
        else:
            na.append({"property_id": pid, "reason": NOT_YET.get(pid, "check not built yet in this session (planned in DESIGN.md section 5); not claimed until it runs")})
    m = {
        "version": 1,
        "setup_cmd": "./check build",
        "hooks": {
            "guard": "cargo feature `verif` of the packing crate (default off)",
            "enable": "the harness crate /verif/harness depends on packing with features=[\"verif\"]; ./check rebuilds it from /repo's working tree on every invocation",
            "baseline_off_cmd": "cd /repo && cargo nextest run --workspace --no-fail-fast --offline",
            "source_commits": ["3d88488"],
            "add_only": True,
        },
        "engines": [
            {"name": "miri-c09", "path": "harness-miri/src/main.rs", "serves_properties": ["C09"], "kind_free_text": "free-running thread bodies for Miri's data-race detector (thorough tier, corroborating)"},
            {"name": "ilv", "path": "harness/src/ilv.rs", "serves_properties": ["C09"], "kind_free_text": "cooperative scheduler over OS threads running the real optimiser; all interleavings within a preemption bound by prefix replay; reduction trees; pool sizes"},
            {"name": "io", "path": "harness/src/io_props.rs", "serves_properties": ["C10", "C11"], "kind_free_text": "real binary over the argument product; f64 bit-pattern lattice through the JSON round trip; SVG multiset comparison"},
            {"name": "rsx", "path": "harness/src/rsx.rs", "serves_properties": ["C08", "C01", "C04", "C05"], "kind_free_text": "explicit-state BFS over real crystal states; transition = one real optimiser stage under a scripted generator; observer wrapper sees every score() call"},
            {"name": "geo-states", "path": "harness/src/geo2.rs", "serves_properties": ["C01", "C03", "C04"], "kind_free_text": "exhaustive enumeration of state lattices (generic, displacement-directed, special positions) with brute-force lattice oracles"},
            {"name": "mcx", "path": "harness/src/mcx.rs, harness/src/mc_props.rs", "serves_properties": ["C05", "C06", "C07", "C18", "C19", "C20"], "kind_free_text": "stateless model checker for the real MCOptimiser: the three random draws per step are scripted through the crate's verif hook and score() answers through a probe State; enumerates all histories within a deviation bound, measures acceptance thresholds by replay bisection"},
            {"name": "cli", "path": "harness/src/cli.rs", "serves_properties": ["C20"], "kind_free_text": "real release binary over an argument grid; in-process analyse_state via include! of /repo/src/main.rs"},
            {"name": "geo", "path": "harness/src/geo1.rs", "serves_properties": ["C02", "C12", "C13", "C14", "C15"], "kind_free_text": "exhaustive enumeration of finite input lattices built from the code's thresholds, bounds and exact alignments, judged by independent closed-form oracles"},
            {"name": "sym", "path": "harness/src/sym.rs", "serves_properties": ["C16", "C17"], "kind_free_text": "complete enumeration of finite tables and of a string grammar against independent evaluators"},
        ],
        "checks": checks,
        "not_applicable": na,
        "notes": "All checks are bounded exhaustive explorations of the real code (see DESIGN.md). Exit 2 from a check is a machinery error, never a verdict; a panic of the crate under test that escapes a sweep is reported as a violation (exit 1) with a replay file naming the location. Known findings are listed in /verif/known_findings.json (never written at run time): one open finding (C03: cut potentials in cells that need more than the sixteen shells the sum is capped at; reached by the thorough tier only), printed as a KNOWN-FINDING line with exit 0; repaired defects are listed there as fixed and suppress nothing.",
    }
    json.dump(m, open('/verif/MANIFEST.json', 'w'), indent=1)
    print("checks:", [c["property_id"] for c in checks], "not claimed:", [n["property_id"] for n in na])

main()
