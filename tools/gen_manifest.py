#!/usr/bin/env python3
"""Generate /verif/MANIFEST.json from the table below (single source of truth for the interface)."""
import json, sys

CHECKS = {
 # id: (engine, category, technique, level text, level note, design_ref)
 "C16": ("sym", "exploration",
         "exhaustive enumeration of the finite group tables against an independent ITA table",
         "Complete enumeration: all 7 groups, every operation, every ordered pair and inverse, every operation conjugated into a grid of cells of its family, compared with an independent table of ITA general positions. The space is finite, so this is exhaustive in the literal sense.",
         "Trusted: the hard-coded ITA table in harness/src/oracle.rs (self-tested for closure/content at start-up).",
         "5/C16"),
 "C17": ("sym", "exploration",
         "exhaustive enumeration of the operation-string grammar and of all short strings",
         "Every string of the stated grammar with single-digit constants (all term orders, signs, 4 spacing styles, both component positions, parentheses) is parsed by the real parser and compared with an independent evaluator at 4 points; every string up to length 5 (quick) / 7 (thorough) over a 14-character alphabet is parsed under catch_unwind.",
         "Trusted: the structural evaluator in sym.rs. Multi-digit constants, '*', repeated terms are outside the stated grammar.",
         "5/C17"),
}

NOT_YET = {
}

def main():
    props = [json.loads(l) for l in open('/verif/properties.jsonl')]
    checks = []
    na = []
    for p in props:
        pid = p["id"]
        if pid in CHECKS:
            eng, cat, tech, text, note, ref = CHECKS[pid]
            checks.append({
                "property_id": pid,
                "quick_cmd": f"./check {pid} quick",
                "thorough_cmd": f"./check {pid} thorough",
                "evidence_file": f"/verif/evidence/{pid}.json",
                "replay_cmd_template": f"./check {pid} --replay {{path}}",
                "engine": eng,
                "level_claimed": {"category": cat, "text": text, "design_ref": f"DESIGN.md section {ref}"},
                "level_note": note,
                "technique": tech,
            })
        else:
            na.append({"property_id": pid, "reason": NOT_YET.get(pid, "check not built yet in this session (planned in DESIGN.md section 5); not claimed until it runs")})
    m = {
        "version": 1,
        "setup_cmd": "./check build",
        "hooks": {
            "guard": "cargo feature `verif` of the packing crate (default off)",
            "enable": "the harness crate /verif/harness depends on packing with features=[\"verif\"]; ./check rebuilds it from /repo's working tree on every invocation",
            "baseline_off_cmd": "cd /repo && cargo nextest run --workspace --no-fail-fast --offline",
            "source_commits": ["3d88488"],
            "add_only": True,
        },
        "engines": [
            {"name": "sym", "path": "harness/src/sym.rs", "serves_properties": ["C16", "C17"], "kind_free_text": "complete enumeration of finite tables and of a string grammar against independent evaluators"},
        ],
        "checks": checks,
        "not_applicable": na,
        "notes": "All checks are bounded exhaustive explorations of the real code (see DESIGN.md). Exit 2 from a check is a machinery error, never a verdict.",
    }
    json.dump(m, open('/verif/MANIFEST.json', 'w'), indent=1)
    print("checks:", [c["property_id"] for c in checks], "not claimed:", [n["property_id"] for n in na])

main()
