#!/usr/bin/env python3
"""Markdown table of the bounds explored: quick figures from /verif/evidence/*.json (last quick run),
thorough wall times from a log of `<id> thorough exit=<code> <seconds>s` lines (optional argument)."""
import json, re, sys
thor = {}
if len(sys.argv) > 1:
    for l in open(sys.argv[1]):
        m = re.match(r'(C\d+) thorough exit=(\d+) (\d+)s', l)
        if m:
            thor[m.group(1)] = (int(m.group(2)), int(m.group(3)))
print("| id | quick: wall (s) | quick: states / transitions or evaluations / non-trivial | thorough wall (s), exit |")
print("|----|------|------|------|")
for i in range(1, 21):
    pid = 'C%02d' % i
    d = json.load(open('/verif/evidence/%s.json' % pid))
    c = d['coverage']
    if 'states' in c and 'transitions' in c:
        what = '%d states / %d transitions' % (c['states'], c['transitions'])
    else:
        what = '%d evaluations / %d non-trivial' % (c.get('evaluations', 0), c.get('distinct_nontrivial', 0))
    t = thor.get(pid)
    print("| %s | %.0f | %s | %s |" % (pid, d.get('wall_s', 0), what, ('%d, exit %d' % (t[1], t[0])) if t else 'n/a'))
