#!/bin/bash
# run every quick check on the current tree (regenerates all evidence files)
cd /verif
tier=${1:-quick}
for p in C01 C02 C03 C04 C05 C06 C07 C08 C09 C10 C11 C12 C13 C14 C15 C16 C17 C18 C19 C20; do
  s=$(date +%s)
  out=$(./check $p $tier 2>&1); code=$?
  e=$(date +%s)
  echo "$p $tier exit=$code $((e-s))s $(echo "$out" | grep -E 'violation kinds|MACHINERY' | head -1 | cut -c1-200)"
done
