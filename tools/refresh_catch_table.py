#!/usr/bin/env python3
"""Replace the generated tables at the end of DESIGN.md section 11.5 with the output of catch_table.py."""
import subprocess
p = '/verif/DESIGN.md'
s = open(p).read()
a = s.index("| change | property | what it does | needs | caught by |")
b = s.index("### 11.6")
table = subprocess.run(['python3', '/verif/tools/catch_table.py'], capture_output=True, text=True).stdout
s = s[:a] + table.rstrip('\n') + "\n\n" + s[b:]
open(p, 'w').write(s)
print("table rows:", table.count('\n'))
