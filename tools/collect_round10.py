#!/usr/bin/env python3
"""Tenth round: assemble /verif/seeded/<id>-15 and <id>-16 for the ten properties the ninth round did not cover
from /tmp/w10m-<id>/{patch.diff,NOTE.md}, /tmp/w10demo-<id>.rs and the evaluation logs
/tmp/w10eval-<id>.log (blind, harness frozen before the round) and, where present,
/tmp/w10eval2-<id>.log (after strengthening)."""
import json, os, re, shutil, sys

def parse(log):
    r = {'results': {}, 'checks': {}, 'what': []}
    if not os.path.exists(log):
        return None
    last = None
    for line in open(log, errors='replace'):
        line = line.rstrip('\n')
        m = re.match(r'RESULT (\w+)=(\w+)', line)
        if m:
            r['results'][m.group(1)] = (m.group(2) == 'true'); continue
        m = re.match(r'CHECK (C\d+) (quick|thorough) exit=(\d+)', line)
        if m:
            last = '%s:%s' % (m.group(1), m.group(2))
            r['checks'][last] = {'exit': int(m.group(3)), 'note': ''}; continue
        if 'violation kinds' in line and last:
            r['checks'][last]['note'] = line.strip()[:200]
        if 'what:' in line and len(r['what']) < 3:
            r['what'].append(line.strip()[:250])
    return r

for arg in sys.argv[1:]:
    # "C02" is the first batch (-15, worktree /tmp/w10m-C02), "C02b" the second (-16, /tmp/w10n-C02)
    pid, b = (arg[:-1], 'b') if arg.endswith('b') else (arg, '')
    W = '/tmp/w10%s-%s' % ('n' if b else 'm', pid)
    blind = parse('/tmp/w10eval%s-%s.log' % (b, pid))
    after = parse('/tmp/w10eval%s2-%s.log' % (b, pid))
    if blind is None or not all(blind['results'].get(k) for k in
            ('demo_passes_without_change', 'demo_fails_with_change', 'baseline_passes')):
        print(pid, 'not confirmed, skipped', blind and blind['results']); continue
    dst = '/verif/seeded/%s-%d' % (pid, 16 if b else 15)
    os.makedirs(dst, exist_ok=True)
    shutil.copy(W + '/patch.diff', dst + '/patch.diff')
    shutil.copy('/tmp/w10demo%s-%s.rs' % (b, pid), dst + '/demo.rs')
    note = open(W + '/NOTE.md', errors='replace').read() if os.path.exists(W + '/NOTE.md') else ''
    final = {'checks': dict(blind['checks']), 'what': blind['what']}
    if after:
        final['checks'].update(after['checks'])
        final['what'] = after['what'] or blind['what']
    caught = [k for k, v in final['checks'].items() if v['exit'] == 1]
    meta = {
        'property': pid,
        'round': 10,
        'summary': ' '.join(note.split())[:900],
        'needs': 'see summary (the author\'s note covers what the change needs in order to manifest)',
        'confirmed': blind['results'],
        'blind_checks': blind['checks'],
        'checks_run': final['checks'],
        'caught_by': caught,
        'first_findings': final['what'],
        'how_confirmed': 'scratch worktree /tmp/w10m-<id>: demo on the unchanged tree, git apply, demo with the change, '
                         'baseline suite (cargo nextest, hooks off); then a copy of /verif/harness pointed at the worktree, '
                         './check <id> quick (PVX_HARNESS_DIR/PVX_REPO_DIR)',
    }
    json.dump(meta, open(dst + '/meta.json', 'w'), indent=1)
    print(pid, 'collected; blind', {k: v['exit'] for k, v in blind['checks'].items()}, 'final', caught)
