#!/usr/bin/env python3
"""Deliberate property-breaking edits (the 'detection demos' of DESIGN.md section 5).

For each edit: apply to /repo, run the baseline suite (must still pass for the edit to count as a
realistic mutant), run the listed checks (quick; thorough for the first one if quick is silent),
restore /repo. Results are appended to /verif/seeded/self/results.jsonl and each edit's patch is
written to /verif/seeded/self/<name>.diff.

usage: tools/self_mutants.py [name-prefix ...]
"""
import json, os, subprocess, sys, time

R = '/repo'
OUT = '/verif/seeded/self'
os.makedirs(OUT, exist_ok=True)

M = [
 # name, properties (first = target), file, old, new
 ("c01-prefilter-radius", ["C01"], "src/state/packed.rs", "self.shape.enclosing_radius().mul(2.).powi(2)", "self.shape.enclosing_radius().mul(1.).powi(2)"),
 ("c01-skip-pair", ["C01"], "src/state/packed.rs", ".skip(index + 1)\n            {\n                if shape1.intersects", ".skip(index + 2)\n            {\n                if shape1.intersects"),
 ("c01-range-floor", ["C01"], "src/state/packed.rs", "(reach / height).ceil() as i64", "(reach / height).floor() as i64"),
 ("c01-range-a-only", ["C01"], "src/state/packed.rs", "f64::min(self.cell.a(), self.cell.b()) * self.cell.angle().sin()", "self.cell.a() * self.cell.angle().sin()"),
 ("c02-cell-area-no-sin", ["C02", "C01"], "src/cell.rs", "self.angle().sin() * self.a() * self.b()", "self.a() * self.b()"),
 ("c02-polygon-area-cos", ["C02"], "src/shape/line_shape.rs", "let angle_term: f64 = f64::sin(2. * PI / self.items.len() as f64);", "let angle_term: f64 = f64::cos(PI / 2. - 2. * PI / (self.items.len() as f64).min(12.));"),
 ("c02-total-shapes-sites", ["C02", "C10"], "src/state/packed.rs", ".fold(0, |sum, site| sum + site.multiplicity())", ".fold(0, |sum, site| sum + site.multiplicity().min(2))"),
 ("c03-shells-1", ["C03"], "src/state/potential.rs", ".periodic_images(position, 3, false)", ".periodic_images(position, 1, false)"),
 ("c03-normalise-sites", ["C03"], "src/state/potential.rs", "Some(-sum / self.total_shapes() as f64)", "Some(-sum / self.occupied_sites.len() as f64)"),
 ("c03-weight-back", ["C03"], "src/state/potential.rs", "sum += 0.5 * shape1.energy(&shape2);", "sum += shape1.energy(&shape2);"),
 ("c04-compose-order", ["C04", "C15"], "src/site.rs", ".map(move |sym| sym * transform)", ".map(move |sym| transform * sym)"),
 ("c04-p2mg-setting", ["C16", "C04"], "src/wallpaper.rs", '"-x+1/2, y", "x+1/2, -y"', '"-x, y+1/2", "x, -y+1/2"'),
 ("c04-ortho-angle-free", ["C08", "C04"], "src/cell.rs", "            CrystalFamily::Orthorhombic => {\n                basis.push(StandardBasis::new(&self.ratio, 0.1, self.ratio.get_value()));", "            CrystalFamily::Orthorhombic => {\n                basis.push(StandardBasis::new(&self.ratio, 0.1, self.ratio.get_value()));\n                basis.push(StandardBasis::new(&self.angle, PI / 6., PI / 2.));"),
 ("c05-accept-le", ["C07", "C05"], "src/optimisation.rs", "threshold < self.energy_surface(new, old, kt)", "threshold <= self.energy_surface(new, old, kt)"),
 ("c05-zero-guard-gone", ["C05", "C18"], "src/optimisation.rs", "(None, Some(_)) if self.kt_start == 0. => 1.,", "(None, Some(_)) if self.kt_start < 0. => 1.,"),
 ("c06-reset-wrong-index", ["C06", "C19"], "src/optimisation.rs", "                        basis\n                            .get(basis_index)", "                        basis\n                            .get((basis_index + 1) % basis.len())"),
 ("c06-stale-old", ["C06"], "src/basis.rs", "        self.old = self.get_value();\n        self.value.set_value(match new_value {", "        if self.old == self.min { self.old = self.get_value(); }\n        self.value.set_value(match new_value {"),
 ("c07-times-kt", ["C07", "C18"], "src/optimisation.rs", "f64::exp((new - old) / kt)", "f64::exp((new - old) * kt)"),
 ("c07-accept-invalid-rarely", ["C07"], "src/optimisation.rs", "            // If the first two tests fail, then the score is rejected.\n            _ => None,", "            // If the first two tests fail, then the score is rejected.\n            None if threshold > 0.999 => Some(old),\n            _ => None,"),
 ("c08-clamp-wraps", ["C08"], "src/basis.rs", "x if x > self.max => self.max,", "x if x > self.max => self.min,"),
 ("c08-ratio-lower-zero", ["C08"], "src/cell.rs", "CrystalFamily::Monoclinic => {\n                basis.push(StandardBasis::new(&self.ratio, 0.1, self.ratio.get_value()));", "CrystalFamily::Monoclinic => {\n                basis.push(StandardBasis::new(&self.ratio, 0.0, self.ratio.get_value()));"),
 ("c08-site-upper-bound", ["C08"], "src/site.rs", "basis.push(StandardBasis::new(&self.y, -0.5, 0.5));", "basis.push(StandardBasis::new(&self.y, -0.5, 0.75));"),
 ("c08-nan-score-back", ["C08"], "src/state/potential.rs", "if !sum.is_finite() {", "if sum.is_infinite() && sum > 0. {"),
 ("c09-from-entropy", ["C09"], "src/optimisation.rs", "let mut rng = Pcg64Mcg::seed_from_u64(self.seed);", "let mut rng = Pcg64Mcg::seed_from_u64(self.seed ^ (std::process::id() as u64 & 1));"),
 ("c09-static-old", ["C09", "C06"], "src/basis.rs", "    fn reset_value(&self) {\n        self.value.set_value(self.old);\n    }", "    fn reset_value(&self) {\n        self.value.set_value(f64::from_bits(LAST_OLD.load(std::sync::atomic::Ordering::Relaxed)));\n    }"),
 ("c10-min", ["C10"], "src/main.rs", "        .max()\n", "        .min()\n"),
 ("c10-seed-zero", ["C10", "C09"], "src/main.rs", "                .seed(index)\n                .build()\n                .optimise_state(opt_state);\n            (index, result)", "                .seed(0)\n                .build()\n                .optimise_state(opt_state);\n            (index, result)"),
 ("c11-svg-row-major", ["C11"], "src/to_svg.rs", "                matrix[(1, 0)],\n                matrix[(0, 1)],", "                matrix[(0, 1)],\n                matrix[(1, 0)],"),
 ("c11-f32", ["C11"], "src/basis.rs", "serializer.serialize_f64(self.get_value())", "serializer.serialize_f64(f64::from(self.get_value() as f32))"),
 ("c11-svg-image-range", ["C11"], "src/to_svg.rs", "            for transform in self.cell.periodic_images(position, 1, false) {", "            for transform in self.cell.periodic_images(position, 1, true).skip(1) {"),
 ("c12-open-interval", ["C12", "C01"], "src/shape/components/line2.rs", "-eps <= ua && ua <= 1. + eps && -eps <= ub && ub <= 1. + eps", "eps < ua && ua < 1. - eps && eps < ub && ub < 1. - eps"),
 ("c12-disc-le", ["C12"], "src/shape/components/atom2.rs", "(self.position - other.position).norm_squared() < r_squared", "(self.position - other.position).norm_squared() < r_squared - 1e-6"),
 ("c13-shift-sign", ["C13", "C03"], "src/shape/components/lj2.rs", "(sigma2_r2_cubed.powi(2) - sigma2_r2_cubed) - shift", "(sigma2_r2_cubed.powi(2) - sigma2_r2_cubed) + shift"),
 ("c13-transform-drops-cutoff", ["C13"], "src/shape/components/lj2_ops.rs", "            epsilon: self.epsilon,\n            cutoff: self.cutoff", "            epsilon: self.epsilon,\n            cutoff: self.cutoff.map(|c| c.min(3.))"),
 ("c13-mixing-asym", ["C13"], "src/shape/components/lj2.rs", "let sigma = (self.sigma + other.sigma) / 2.;", "let sigma = (2. * self.sigma + other.sigma) / 3.;"),
 ("c14-cos-sin", ["C14", "C04"], "src/cell.rs", "            x * self.a() + y * self.b() * self.angle().cos(),\n            y * self.b() * self.angle().sin(),", "            x * self.a() + y * self.b() * self.angle().sin().mul_add(-1., 1.).max(self.angle().cos()),\n            y * self.b() * self.angle().sin(),"),
 ("c14-half-open-shells", ["C14", "C01"], "src/cell.rs", "iproduct!(-shells..=shells, -shells..=shells)", "iproduct!(-shells..=shells, -shells..shells.max(2))"),
 ("c15-single-modulo", ["C15"], "src/transform.rs", "position.x = (((position.x - offset) % period) + period) % period + offset;", "position.x = ((position.x - offset) % period) + offset;"),
 ("c16-p2gg-not-closed", ["C16", "C04"], "src/wallpaper.rs", '"x+1/2, -y+1/2"', '"x+1/2, -y"'),
 ("c17-sign-carry", ["C17"], "src/transform.rs", "                    'y' => {\n                        transform[(index, 1)] = sign;\n                        sign = 1.;", "                    'y' => {\n                        transform[(index, 1)] = sign;"),
 ("c17-split", ["C17"], "src/transform.rs", ".split_terminator(',')", ".split(',')"),
 ("c18-cool-inside", ["C18"], "src/optimisation.rs", "            rejections += loop_rejections;\n            kt *= self.kt_ratio;", "            rejections += loop_rejections;\n            if loop_counter % 2 == 1 { kt *= self.kt_ratio; }"),
 ("c18-ratio-not-complement", ["C18"], "src/optimisation.rs", "(Some(ratio), _) => 1. - ratio,", "(Some(ratio), _) => if ratio > 0.75 { ratio } else { 1. - ratio },"),
 ("c19-cap-gone", ["C19"], "src/optimisation.rs", "                step_ratio = f64::min(\n                    1.,", "                step_ratio = f64::min(\n                    4.,"),
 ("c19-range-max", ["C19", "C08"], "src/basis.rs", "self.get_value() + step_size * self.value_range() * rng.gen_range(-0.5, 0.5)", "self.get_value() + step_size * self.max.abs().max(self.value_range()) * rng.gen_range(-0.5, 0.5)"),
 ("c20-converge-ge5", ["C20"], "src/optimisation.rs", "if convergence_count > 5 {", "if convergence_count >= 5 {"),
 ("c20-extra-loop", ["C20"], "src/optimisation.rs", "for loop_counter in 1..=(self.steps / self.inner_steps) {", "for loop_counter in 0..=(self.steps / self.inner_steps) {"),
 ("c20-zero-guard-gone", ["C20"], "src/optimisation.rs", "inner_steps: u64::max(1, u64::min(self.inner_steps, self.steps)),", "inner_steps: u64::min(self.inner_steps, self.steps),"),
]

# helper edits that need a second replacement in the same file
EXTRA = {
 "c09-static-old": [("src/basis.rs", "    fn set_value(&mut self, new_value: f64) {\n        self.old = self.get_value();", "    fn set_value(&mut self, new_value: f64) {\n        self.old = self.get_value();\n        LAST_OLD.store(self.old.to_bits(), std::sync::atomic::Ordering::Relaxed);"),
                    ("src/basis.rs", "#[derive(Clone, Debug)]\npub struct StandardBasis<'a> {", "static LAST_OLD: std::sync::atomic::AtomicU64 = std::sync::atomic::AtomicU64::new(0);\n\n#[derive(Clone, Debug)]\npub struct StandardBasis<'a> {")],
 "c04-ortho-angle-free": [],
}

def sh(cmd, timeout=3600):
    p = subprocess.run(cmd, shell=True, capture_output=True, text=True, timeout=timeout)
    return p.returncode, p.stdout + p.stderr

def clean():
    sh("git -C /repo checkout -- .")

def main():
    sel = sys.argv[1:]
    rc, out = sh("git -C /repo status --porcelain --untracked-files=no")
    if out.strip():
        print("repo not clean"); sys.exit(2)
    for name, props, f, old, new in M:
        if sel and not any(name.startswith(s) for s in sel):
            continue
        edits = [(f, old, new)] + EXTRA.get(name, [])
        ok = True
        for ef, eo, en in edits:
            path = os.path.join(R, ef)
            s = open(path).read()
            if eo not in s:
                print(name, "PATTERN NOT FOUND in", ef); ok = False; break
            open(path, 'w').write(s.replace(eo, en, 1))
        if not ok:
            clean(); continue
        rc, diff = sh("git -C /repo diff")
        open(os.path.join(OUT, name + ".diff"), 'w').write(diff)
        t0 = time.time()
        rc, out = sh("cd /repo && cargo nextest run --workspace --no-fail-fast --offline 2>&1 | tail -15")
        base_ok = "90 passed" in out and rc == 0
        rec = {"name": name, "properties": props, "baseline_passes": base_ok, "checks": {}}
        if not base_ok:
            rec["baseline_tail"] = out[-600:]
        for i, p in enumerate(props):
            rc, out = sh("cd /verif && ./check %s quick 2>&1" % p)
            kinds = [l for l in out.splitlines() if 'violation kinds' in l or 'MACHINERY' in l]
            what = [l.strip()[:220] for l in out.splitlines() if 'what:' in l][:1]
            rec["checks"][p + ":quick"] = {"exit": rc, "kinds": kinds[:1], "what": what}
            if i == 0 and rc == 0:
                rc, out = sh("cd /verif && ./check %s thorough 2>&1" % p, timeout=7200)
                kinds = [l for l in out.splitlines() if 'violation kinds' in l or 'MACHINERY' in l]
                what = [l.strip()[:220] for l in out.splitlines() if 'what:' in l][:1]
                rec["checks"][p + ":thorough"] = {"exit": rc, "kinds": kinds[:1], "what": what}
        rec["wall_s"] = round(time.time() - t0, 1)
        clean()
        print(json.dumps(rec), flush=True)
        open(os.path.join(OUT, "results.jsonl"), 'a').write(json.dumps(rec) + "\n")
    clean()

main()
