#!/usr/bin/env python3
"""Markdown tables: which checks catch which seeded changes (sub-agent mutants and self mutants)."""
import json, glob, os
print("| change | property | what it does | needs | caught by |")
print("|--------|----------|--------------|-------|-----------|")
for d in sorted(glob.glob('/verif/seeded/C*-*'), key=lambda x: (os.path.basename(x).split('-')[0], int(os.path.basename(x).split('-')[1]))):
    m = json.load(open(d + '/meta.json'))
    summ = (m.get('summary') or '').replace('|', '/').replace('\n', ' ')[:160]
    needs = (m.get('needs') or '').replace('|', '/').replace('\n', ' ')[:140]
    caught = ', '.join(m.get('caught_by', [])) or '**not caught**'
    print("| %s | %s | %s | %s | %s |" % (os.path.basename(d), m.get('property'), summ, needs, caught))
print()
print("| self-made change | baseline suite | checks (exit 1 = caught) |")
print("|------------------|----------------|--------------------------|")
seen = {}
for l in open('/verif/seeded/self/results.jsonl'):
    r = json.loads(l); seen[r['name']] = r
for name, r in sorted(seen.items()):
    cs = ', '.join('%s=%d' % (k, v['exit']) for k, v in r['checks'].items())
    print("| %s | %s | %s |" % (name, 'passes' if r['baseline_passes'] else 'FAILS (not a realistic mutant)', cs))
