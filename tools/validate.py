#!/usr/bin/env python3
"""Validate MANIFEST.json and evidence files against the schemas and each other (run with python3-vt)."""
import json, glob, sys
import jsonschema
m = json.load(open('/verif/MANIFEST.json'))
jsonschema.validate(m, json.load(open('/root/.vp/MANIFEST.schema.json')))
es = json.load(open('/root/.vp/EVIDENCE.schema.json'))
bad = 0
for c in m['checks']:
    f = c['evidence_file']
    try:
        e = json.load(open(f))
        jsonschema.validate(e, es)
        if e['level'] != c['level_claimed']['category']:
            print('LEVEL MISMATCH', c['property_id'], e['level'], c['level_claimed']['category']); bad += 1
        if e['property_id'] != c['property_id']:
            print('ID MISMATCH', f); bad += 1
    except Exception as ex:
        print('BAD', f, str(ex)[:200]); bad += 1
ids = {c['property_id'] for c in m['checks']} | {n['property_id'] for n in m.get('not_applicable', [])}
props = {json.loads(l)['id'] for l in open('/verif/properties.jsonl')}
if ids != props:
    print('PROPERTY SET MISMATCH', props ^ ids); bad += 1
print('ok' if not bad else 'PROBLEMS: %d' % bad)
sys.exit(1 if bad else 0)
