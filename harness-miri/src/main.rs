// Free-running (uncontrolled) threads over the same bodies the interleaving explorer schedules,
// for Miri's data-race detector: a cooperative scheduler's hand-offs are happens-before edges
// that would hide unsynchronised accesses, so this pass runs without any scheduler.
//
//   miri-c09          two threads optimise their own clones of one common state while a third
//                     keeps reading the original: must be free of data races
//   miri-c09 racy     self-test of the detector: two threads optimise the SAME state object
//                     (no clone); Miri must report a data race on the shared parameter cells
use packing::traits::*;
use packing::wallpaper::{get_wallpaper_group, WallpaperGroups};
use packing::{BuildOptimiser, LJShape2, LineShape, PackedState, PotentialState};

fn opt(seed: u64) -> packing::MCOptimiser {
    let mut b = BuildOptimiser::default();
    b.steps(6).inner_steps(3).kt_start(0.1).seed(seed);
    b.build()
}

fn main() {
    let racy = std::env::args().nth(1).map(|a| a == "racy").unwrap_or(false);
    let wg = get_wallpaper_group(WallpaperGroups::p2).unwrap();
    let hard = PackedState::from_group(LineShape::polygon(4).unwrap(), &wg).unwrap();
    let lj = PotentialState::from_group(LJShape2::from_trimer(0.637556, 120., 1.), &wg).unwrap();
    if racy {
        // share the parameter cells between two optimising threads through a wrapper that
        // hands out the same object twice
        std::thread::scope(|s| {
            for seed in 0..2u64 {
                let shared = &hard;
                s.spawn(move || {
                    let mut basis = shared.generate_basis();
                    for k in 0..4 {
                        let i = (k + seed as usize) % basis.len();
                        let v = basis[i].get_value();
                        basis[i].set_value(v * 0.999);
                        let _ = shared.score();
                        basis[i].reset_value();
                    }
                });
            }
        });
        println!("miri-c09 racy: completed without a report");
        return;
    }
    std::thread::scope(|s| {
        for seed in 0..2u64 {
            let (h, l) = (&hard, &lj);
            s.spawn(move || {
                let out = opt(seed).optimise_state(h.clone());
                assert!(out.score().is_some());
                let out = opt(seed).optimise_state(l.clone());
                assert!(out.score().is_some());
            });
        }
        let (h, l) = (&hard, &lj);
        s.spawn(move || {
            for _ in 0..3 {
                // (Miri perturbs sin/cos in the last bits, so no equality is asserted here)
                let _ = (h.score(), l.score());
                let _ = h.generate_basis().len();
            }
        });
    });
    println!("miri-c09: completed");
}
